NOTES = ("All checks: ./check <ID> --tier quick|thorough, VERIF_SEED honoured, evidence rewritten on every run, "
         "known findings in known_findings.json. See DESIGN.md.")
NOT_APPLICABLE = {}
ENTRIES = {
 "C09": dict(
    text="Seeded Hypothesis search over rotations concentrated next to angle 0 and pi, translations over 15 and scales over 8 orders of magnitude, and near-miss matrices at controlled distance from the groups; every helper is compared with an independent reference (Rodrigues, atan2 angle, explicit inverses) and with the group/metric laws. Exploration: shows the laws on 2e4 (quick) / 1e6 (thorough) generated elements, cannot show absence.",
    design_ref="5/C09", technique="property-based testing (Hypothesis) against reference model + algebraic laws",
    note="Trusted: vf/refmodel.py conversions; tolerances 1e-9 (exp/log/angle), 64 eps (1+|t|) for SE(3); the band 1e-8..1e-3 around the groups is evo's documented tolerance region and is not judged."),
 "C05": dict(
    text="Seeded Hypothesis search over pairs of stamp vectors on integer lattices (exact dyadic lattice where a difference equal to max_diff is decidable, inexact decimal lattices with an ambiguity margin), bursty/contested counterparts, offsets, both length orders and storage modes, plus Philox-expanded pairs up to 5000 stamps; the returned pair of trajectories is judged by a validity predicate (copies of input poses, order, bound, nearest counterpart, completeness, uniqueness, refusal, inputs untouched) evaluated in exact rational arithmetic.",
    design_ref="5/C05", technique="property-based testing (Hypothesis) with a validity-predicate oracle in exact rational arithmetic",
    note="Trusted: the predicate in vf/checks/c05.py; ties in 'nearest' and contested counterparts accept any valid outcome; bulk cases use float64 with an 8-ulp margin."),
 "C01": dict(
    text="Seeded Hypothesis search over pairs of pose sequences (special relative angles next to 0 and pi, UTM-like offsets, both storage modes, all 7 relations) against the reference definitions, the metamorphic laws of the statement (coincide, common rigid motion, swap), refusal of unequal lengths, bulk sequences to 1e4 poses, and evo_ape driven end to end on generated files with the archive compared against an independent reference pipeline.",
    design_ref="5/C01", technique="property-based testing (Hypothesis): reference-model differential + metamorphic relations + CLI round trip",
    note="Trusted: vf/refmodel.py definitions and pipeline; angle tolerance 1e-7 rad, length tolerance 64 eps (max|coord|+1)."),
 "C02": dict(
    text="Seeded Hypothesis search over pairs of pose sequences x delta unit x delta (incl. exactly realised values) x pairing mode x source of the pairs x 7 relations against the reference RPE definition on the selected pairs, delta_ids/value count and order, zero-reference-distance filtering of the ratio, invariance under independent rigid motions, refusal of unequal lengths, bulk to 3000 poses, and evo_rpe end to end.",
    design_ref="5/C02", technique="property-based testing (Hypothesis): reference-model differential + metamorphic relations + CLI round trip",
    note="Pair lists are taken from evo's selectors (decided separately by C10) on the matrices evo itself derives; tolerances as C01."),
 "C03": dict(
    text="Seeded Hypothesis search over point-set pairs in classes generic/planar/nearly collinear/mirrored/exactly degenerate, magnitudes 1e-3..1e6 with UTM offsets, noise 0..100%, with and without scale: properness, least-squares optimality against Horn's quaternion solution (exact rational / 80-bit costs) and against 36 perturbed and random competitors per case, reproduction of the generator, equivariance under similarity motions and permutation, refusals.",
    design_ref="5/C03", technique="property-based testing (Hypothesis): independent algorithm (Horn) + optimality by competitor search + metamorphic equivariance",
    note="Sets with reference sigma2 <= max(1e-10, 1e-11 sigma1) may be refused or answered; costs get a float64 noise floor n (64 eps coord)^2."),
 "C04": dict(
    text="Seeded Hypothesis search over synchronized pairs (estimate = noisy similarity image of the reference, scale ratio 1e-2..1e2, both storage modes, pre-read views) x {rigid, similarity, scale-only, origin} x n: every pose after align() equals the reference application of the returned (r,t,s) in all three views, n restricts the fit (garbage beyond n changes nothing), reference untouched, RMSE not worse than before / Horn optimum / perturbed competitors, re-alignment is the identity, origin alignment maps first pose and keeps relative poses, and the matrix stored by ape()/rpe() maps the unaligned onto the stored estimate for all option combinations.",
    design_ref="5/C04", technique="property-based testing (Hypothesis): reference application of returned parameters + optimality by competitor search + metamorphic idempotence",
    note="Idempotence/parameter comparisons only when the reference singular-value gap ratio > 1e-3; fit comparisons in 80-bit precision with a float64 noise floor."),
 "C10": dict(
    text="Exhaustive enumeration of exact grids (integer steps on a line for path lengths where exact hits are decidable, pi/8 yaw grids for angles, all frame deltas) x delta x tolerance x pairing mode through both filters.* and id_pairs_from_delta, plus Hypothesis random sequences (realised deltas, stationary stretches, out-of-range angles) and bulk sequences to 3000 poses; the returned pairs are judged by validity checkers (chain structure, first-reach, admissible start, maximality, closest-within-tolerance, exact band membership, refusals).",
    design_ref="5/C10", technique="exhaustive enumeration of small exact domains + property-based testing (Hypothesis) with validity-predicate oracles",
    note="Angle decisions within 1e-9 rad of a threshold accept either outcome (float-level inclusivity of angle thresholds is undecidable); integer path grids are exact (margin 0)."),
 "C11": dict(
    text="Down-sampling enumerated exhaustively over every (count, target) with count <= 400 (quick) / 2500 (thorough); motion filter on exhaustive integer-step x pi/8-heading grids and Hypothesis random geometry via a checker walking the kept ids; time crop with every kind of bound; three splitters judged as partitions with exact cut placement; merge judged as a time-sorted union with own stamps/orientations; tagged poses show that position, orientation and timestamp travel together.",
    design_ref="5/C11", technique="exhaustive enumeration + property-based testing (Hypothesis) with index-law and partition/union predicates on tagged trajectories",
    note="Spacing bound |id_k - ideal| <= 1; distance/speed/angle decisions within a 1e-9 relative margin accept either outcome, integer grids and time comparisons are exact."),
 "C12": dict(
    text="Seeded Hypothesis search: error arrays (1-200 drawn values, bulk to 1e6, magnitudes 1e-12..1e6, constant/single) against math.fsum statistics, order relations and rmse^2 = mean^2 + std^2; all 100 ordered unit pairs (exact rational conversion factor within 4 ulp, refusals leave values and unit untouched); ape()/rpe() results on generated timestamped trajectories: companion arrays refer to the right poses, stored trajectories are the processed ones ([0]+pair ends for RPE), title/label name metric, relation, unit, delta and pairing.",
    design_ref="5/C12", technique="property-based testing (Hypothesis) against fsum reference statistics, exact rational unit factors and a companion-array reference",
    note="Order relations carry a 1e-9 relative slack (one-ulp failures on constant arrays are not defects); distances-from-start are read on the stored trajectories."),
 "C06": dict(
    text="Seeded Hypothesis search over trajectories/results with coordinates across the whole finite double range (incl. -0.0, subnormals, 17-digit values), unit quaternions with full mantissas and epoch timestamps: write/re-read through TUM, KITTI, result archives (with/without embedded trajectories), DataFrame conversion and ROS1 bags, via str / pathlib.Path / handle, compared bit for bit (bags: stamps within 1 ns + 2 ulp); bulk trajectories to 1e5 poses in the thorough tier.",
    design_ref="5/C06", technique="property-based testing (Hypothesis): bit-exact round-trip oracle",
    note="Round trip only (a reader/writer pair sharing a wrong convention is C07's business); ROS2 bags outside the statement; bag stamps limited to 0 <= t < 2^31 by the pinned rosbags."),
 "C07": dict(
    text="Grammar-based Hypothesis generation of well-formed TUM/KITTI/EuRoC/transform files (float spellings, comments, BOM, CRLF, final newline, path/handle) whose loaded numbers must equal float(token) in the right slots and whose pose matrices must follow the (w,x,y,z) convention of an independent conversion; files written by evo are parsed by a strict independent parser; malformed files with one injected defect class at a drawn row/column (and invalid transforms) must raise FileInterfaceException and nothing else.",
    design_ref="5/C07", technique="grammar-based property testing (Hypothesis) against an independent strict parser/writer; defect injection",
    note="GREY inputs (nan/inf/underscore/non-ASCII digit tokens, CSV quoting, bare CR) are not judged either way."),
 "C08": dict(
    text="Hypothesis rule-based state machine over the trajectory operation alphabet (left/right/propagating transforms, Sim(3), scale, index reduction, down-sampling, motion filter, time crop, alignment, origin alignment, projection, deepcopy) interleaved with reads of exactly one view or derived quantity; a reference pose model is compared after every step with the caches that exist at that moment (without materialising the others), and with all views plus evo's check() at the end; plus exhaustive enumeration of all sequences to depth 3 (thorough 4) over 17 representative operations x storage mode x timestamps x pre-read view.",
    design_ref="5/C08", technique="stateful model-based testing (Hypothesis RuleBasedStateMachine) + bounded exhaustive history enumeration against a reference pose model",
    note="Orientation/position tolerance 1e-9 relative, widened by eps (2n)^k/k! for k drift propagations (histories whose bound exceeds 1e-7 are not explored); after projection the model adopts evo's heading."),
 "C14": dict(
    text="Every heading on a 1 degree (quick) / 0.1 degree (thorough) grid over (-180,180] x three planes enumerated for planar poses, plus Hypothesis-drawn planar and general 3-D trajectories (gimbal lock, both storage modes, pre-read views, timestamps): zero out-of-plane coordinate, bit-identical in-plane coordinates, pure rotation about the normal in matrix and quaternion views, valid poses, count/order/timestamps kept, planar poses unchanged, second projection refused.",
    design_ref="5/C14", technique="exhaustive heading grid + property-based testing (Hypothesis) with projection predicates",
    note="Known finding KF-C14-1 (xz plane, |heading| > 90 deg) is matched per failing case by plane, heading class and observed mirrored heading; everything else is still reported."),
}
