NOTES = ("All checks: ./check <ID> --tier quick|thorough, VERIF_SEED honoured, evidence rewritten on every run, "
         "known findings in known_findings.json. See DESIGN.md.")
NOT_APPLICABLE = {}
ENTRIES = {
 "C09": dict(
    text="Seeded Hypothesis search over rotations concentrated next to angle 0 and pi, translations over 15 and scales over 8 orders of magnitude, and near-miss matrices at controlled distance from the groups; every helper is compared with an independent reference (Rodrigues, atan2 angle, explicit inverses) and with the group/metric laws. Exploration: shows the laws on 2e4 (quick) / 1e6 (thorough) generated elements, cannot show absence.",
    design_ref="5/C09", technique="property-based testing (Hypothesis) against reference model + algebraic laws",
    note="Trusted: vf/refmodel.py conversions; tolerances 1e-9 (exp/log/angle), 64 eps (1+|t|) for SE(3); the band 1e-8..1e-3 around the groups is evo's documented tolerance region and is not judged."),
 "C05": dict(
    text="Seeded Hypothesis search over pairs of stamp vectors on integer lattices (exact dyadic lattice where a difference equal to max_diff is decidable, inexact decimal lattices with an ambiguity margin), bursty/contested counterparts, offsets, both length orders and storage modes, plus Philox-expanded pairs up to 5000 stamps; the returned pair of trajectories is judged by a validity predicate (copies of input poses, order, bound, nearest counterpart, completeness, uniqueness, refusal, inputs untouched) evaluated in exact rational arithmetic.",
    design_ref="5/C05", technique="property-based testing (Hypothesis) with a validity-predicate oracle in exact rational arithmetic",
    note="Trusted: the predicate in vf/checks/c05.py; ties in 'nearest' and contested counterparts accept any valid outcome; bulk cases use float64 with an 8-ulp margin."),
}
