#!/usr/bin/env python3
"""Confirm a seeded change and run the checks against it.

  tools/seeded.py confirm <ID> <variant> <patch.diff> <demo.py>     -> verifies: pinned tests pass with the patch, demo fails with /
                                                                      passes without it; stores /verif/seeded/<ID>-<variant>/
  tools/seeded.py run <ID>-<variant> [--tier quick|thorough] [--checks C01,C05]
                                                                   -> applies the stored patch to a scratch copy of /repo, runs the
                                                                      check(s) with VF_REPO, records the outcome in meta.json

Scratch copies live under /tmp and are removed afterwards.
"""
import json
import os
import shutil
import subprocess
import sys
import tempfile
import time

VERIF = os.path.dirname(os.path.dirname(os.path.abspath(__file__)))
PINNED = ["test/test_file_interface.py", "test/test_filters.py", "test/test_lie_algebra.py", "test/test_pandas_bridge.py", "test/test_result.py",
          "test/test_sync.py", "test/test_trajectory.py"]


def scratch_copy():
    d = tempfile.mkdtemp(prefix="vf_seed_")
    repo = os.path.join(d, "repo")
    shutil.copytree("/repo", repo, ignore=shutil.ignore_patterns(".git", "__pycache__", "*.pyc", "doc", "notebooks"))
    return d, repo


def apply_patch(repo, patch):
    r = subprocess.run(["patch", "-p1", "-s", "-d", repo, "-i", os.path.abspath(patch)], capture_output=True, text=True)
    return r.returncode == 0, r.stdout + r.stderr


def run_tests(repo, home):
    r = subprocess.run(["/venv/bin/python", "-m", "pytest", "-q", "-p", "no:cacheprovider", "--timeout=900"] + PINNED, cwd=repo, capture_output=True, text=True,
                       env=dict(os.environ, HOME=home))
    tail = r.stdout.strip().splitlines()[-1] if r.stdout.strip() else ""
    return tail.split(" in ")[0].replace(", 4 warnings", ", 3 warnings")


def run_demo(repo, demo, home):
    # the script's directory is first on sys.path: run a copy that lives inside the scratch repo
    local = os.path.join(repo, "_seeded_demo.py")
    shutil.copy(demo, local)
    r = subprocess.run(["/venv/bin/python", "-W", "ignore", local], cwd=repo, capture_output=True, text=True,
                       env=dict(os.environ, HOME=home, PYTHONPATH=repo, MPLBACKEND="Agg"), timeout=900)
    return r.returncode, (r.stdout + r.stderr)[-600:]


def confirm(pid, variant, patch, demo):
    d, repo = scratch_copy()
    home = tempfile.mkdtemp(prefix="seed_home_", dir="/tmp")  # some demos insist on this prefix
    out = {"property": pid, "variant": variant}
    try:
        rc0, o0 = run_demo(repo, demo, home)
        out["demo_without_patch"] = {"exit": rc0, "tail": o0[-300:]}
        base_tests = run_tests(repo, home)
        ok, msg = apply_patch(repo, patch)
        if not ok:
            print("patch does not apply:", msg)
            return 1
        out["tests_with_patch"] = run_tests(repo, home)
        out["tests_without_patch"] = base_tests
        rc1, o1 = run_demo(repo, demo, home)
        out["demo_with_patch"] = {"exit": rc1, "tail": o1[-400:]}
    finally:
        shutil.rmtree(d, ignore_errors=True)
        shutil.rmtree(home, ignore_errors=True)
    good = rc0 == 0 and rc1 != 0 and out["tests_with_patch"] == out["tests_without_patch"] and "82 passed" in out["tests_with_patch"]
    out["confirmed"] = bool(good)
    print(json.dumps(out, indent=1))
    if good:
        dest = os.path.join(VERIF, "seeded", "%s-%s" % (pid, variant))
        os.makedirs(dest, exist_ok=True)
        shutil.copy(patch, os.path.join(dest, "patch.diff"))
        shutil.copy(demo, os.path.join(dest, "demo.py"))
        meta_p = os.path.join(dest, "meta.json")
        meta = json.load(open(meta_p)) if os.path.exists(meta_p) else {}
        meta.update({"property": pid, "variant": variant, "confirmation": out,
                     "how_to_apply": "git -C /repo apply seeded/%s-%s/patch.diff ; run checks ; git -C /repo checkout -- ." % (pid, variant)})
        json.dump(meta, open(meta_p, "w"), indent=1)
    return 0 if good else 2


def run(name, tier, checks):
    dest = os.path.join(VERIF, "seeded", name)
    meta_p = os.path.join(dest, "meta.json")
    meta = json.load(open(meta_p))
    d, repo = scratch_copy()
    results = meta.get("check_results", {})
    try:
        ok, msg = apply_patch(repo, os.path.join(dest, "patch.diff"))
        if not ok:
            print("patch does not apply:", msg)
            return 1
        for c in checks:
            t0 = time.time()
            r = subprocess.run(["./check", c, "--tier", tier, "--no-evidence"], cwd=VERIF, capture_output=True, text=True, env=dict(os.environ, VF_REPO=repo))
            lines = [ln for ln in r.stdout.splitlines() if ln.startswith("VIOLATION") or ln.startswith("violation detail") or ln.startswith("HARNESS")]
            results["%s/%s" % (c, tier)] = {"exit": r.returncode, "detected": r.returncode == 1, "wall_s": round(time.time() - t0, 1),
                                           "lines": [ln[:300] for ln in lines[:6]]}
            print(name, c, tier, "exit", r.returncode, "DETECTED" if r.returncode == 1 else "missed", "%.0fs" % (time.time() - t0))
            for ln in lines[:3]:
                print("   ", ln[:220])
    finally:
        shutil.rmtree(d, ignore_errors=True)
    meta["check_results"] = results
    json.dump(meta, open(meta_p, "w"), indent=1)
    return 0


if __name__ == "__main__":
    if sys.argv[1] == "confirm":
        sys.exit(confirm(*sys.argv[2:6]))
    if sys.argv[1] == "run":
        name = sys.argv[2]
        tier = "quick"
        checks = [name.split("-")[0]]
        args = sys.argv[3:]
        if "--tier" in args:
            tier = args[args.index("--tier") + 1]
        if "--checks" in args:
            checks = args[args.index("--checks") + 1].split(",")
        sys.exit(run(name, tier, checks))
