#!/venv/bin/python
"""Systematic sensitivity scan: small syntactic mutants of the anchored code, kept only if the pinned tests still pass,
run against the quick tier of the properties anchored near the mutated line.

usage: tools/mutscan.py <evo/relative/file.py> [--max N] [--offset K] [--out mutscan/<name>.jsonl]

Nothing in /repo is touched: one scratch copy under /tmp is made, mutated, and removed.  Survivors (mutants that pass
the pinned tests and that no mapped check detects) are the interesting output; many are equivalent mutants (logging,
defensive code) and need a human look.
"""
import ast
import json
import os
import re
import shutil
import subprocess
import sys
import tempfile

VERIF = os.path.dirname(os.path.dirname(os.path.abspath(__file__)))
REPO = "/repo"
TESTS = ["test/test_file_interface.py", "test/test_filters.py", "test/test_lie_algebra.py", "test/test_pandas_bridge.py", "test/test_result.py",
         "test/test_sync.py", "test/test_trajectory.py"]
SLACK = 25   # anchored ranges refer to the pinned commit; later fix commits shifted lines a little


def anchored_ranges():
    out = {}
    for ln in open(os.path.join(VERIF, "properties.jsonl")):
        p = json.loads(ln)
        for sect in ("state", "mechanism"):
            for m in p["anchors"].get(sect, []):
                for part in m.get("where", "").split(";"):
                    mm = re.match(r"\s*(evo/[\w/\.]+):([\d,\-]+)", part)
                    if not mm:
                        continue
                    for r in mm.group(2).split(","):
                        a, b = (r.split("-") + [r])[:2] if "-" in r else (r, r)
                        out.setdefault(mm.group(1), []).append((int(a), int(b), p["id"]))
    return out


def props_for(rel, line, ranges):
    return sorted({pid for a, b, pid in ranges.get(rel, []) if a - SLACK <= line <= b + SLACK})


SWAPS = [(" <= ", " < "), (" < ", " <= "), (" >= ", " > "), (" > ", " >= "), (" == ", " != "), (" != ", " == "),
         (" + ", " - "), (" - ", " + "), (" * ", " / "), (" / ", " * "), (" and ", " or "), (" or ", " and "),
         ("if not ", "if "), (" is None", " is not None"), (" is not None", " is None"), ("True", "False"), ("False", "True"),
         ("[1:]", "[:]"), ("[:-1]", "[:]"), ("[0]", "[-1]"), ("[-1]", "[0]"), (".T", ""), ("abs(", "("), (" -= ", " += "), (" += ", " -= "),
         ("min(", "max("), ("max(", "min("), ("np.dot(a, b)", "np.dot(b, a)"), (">= delta", "> delta"), ("<= max_diff", "< max_diff")]


def mutants(path):
    src = open(path).read()
    lines = src.split("\n")
    tree = ast.parse(src)
    skip = set()
    body_lines = set()
    for node in ast.walk(tree):
        if isinstance(node, (ast.FunctionDef, ast.ClassDef, ast.Module)):
            b = node.body
            if b and isinstance(b[0], ast.Expr) and isinstance(getattr(b[0], "value", None), ast.Constant) and isinstance(b[0].value.value, str):
                skip.update(range(b[0].lineno, b[0].end_lineno + 1))
        if isinstance(node, ast.FunctionDef):
            body_lines.update(range(node.body[0].lineno, node.end_lineno + 1))
    simple = {}
    for node in ast.walk(tree):
        if isinstance(node, (ast.Assign, ast.AugAssign, ast.Expr)) and node.lineno == node.end_lineno and node.lineno in body_lines and node.lineno not in skip:
            simple[node.lineno] = node
    out = []
    for i, text in enumerate(lines, 1):
        if i not in body_lines or i in skip:
            continue
        code = text.split("#")[0]
        if not code.strip() or "logger." in code or code.strip().startswith(("import ", "from ", "@", "def ", "class ", "raise ", "print(")):
            continue
        for a, b in SWAPS:
            if a == ".T" and ("typing." in code or not re.search(r"\.T(?![\w])", code)):
                continue
            start = 0
            while True:
                k = code.find(a, start)
                if k < 0:
                    break
                start = k + len(a)
                if a in (" * ", " / ") and ("**" in code[max(0, k - 1):k + 4]):
                    continue
                new = text[:k] + b + text[k + len(a):]
                out.append((i, "%r -> %r" % (a.strip(), b.strip()), new))
        for m in re.finditer(r"(?<![\w\.])(\d+\.\d+|\d+)(?![\w\.])", code):
            tok = m.group(1)
            if "." in tok:
                rep = repr(float(tok) * 2 if float(tok) != 0 else 1.0)
            else:
                rep = str(int(tok) + 1)
            out.append((i, "const %s -> %s" % (tok, rep), text[:m.start(1)] + rep + text[m.end(1):]))
        if i in simple and not code.strip().startswith(("return", "yield")):
            indent = len(text) - len(text.lstrip())
            out.append((i, "delete statement", " " * indent + "pass"))
    return lines, out


def run_tests(repo, home):
    env = dict(os.environ, HOME=home, PYTHONPATH=repo, MPLBACKEND="Agg")
    r = subprocess.run(["/venv/bin/python", "-m", "pytest", "-q", "-x", "-p", "no:cacheprovider", "--deselect",
                        "test/test_file_interface.py::TestBagFile::test_write_read_integrity"] + TESTS,
                       cwd=repo, env=env, capture_output=True, text=True, timeout=600)
    tail = r.stdout.strip().splitlines()[-1] if r.stdout.strip() else ""
    return ("82 passed" in tail and "failed" not in tail), tail


def main():
    rel = sys.argv[1]
    mx = int(sys.argv[sys.argv.index("--max") + 1]) if "--max" in sys.argv else 30
    off = int(sys.argv[sys.argv.index("--offset") + 1]) if "--offset" in sys.argv else 0
    outp = sys.argv[sys.argv.index("--out") + 1] if "--out" in sys.argv else os.path.join(VERIF, "mutscan", rel.replace("/", "_") + ".jsonl")
    os.makedirs(os.path.dirname(outp), exist_ok=True)
    ranges = anchored_ranges()
    base = tempfile.mkdtemp(prefix="vf_mutscan_", dir="/tmp")
    repo = os.path.join(base, "repo")
    shutil.copytree(REPO, repo, ignore=shutil.ignore_patterns(".git", "__pycache__", "*.pyc"))
    home = os.path.join(base, "home")
    os.makedirs(home)
    path = os.path.join(repo, rel)
    lines, muts = mutants(path)
    muts = [m for m in muts if props_for(rel, m[0], ranges)]
    step = max(1, len(muts) // mx)
    chosen = muts[off::step][:mx]
    print("%s: %d candidate mutants in anchored regions, %d chosen" % (rel, len(muts), len(chosen)), flush=True)
    original = "\n".join(lines)
    done = set()
    if os.path.exists(outp):
        for ln in open(outp):
            try:
                d = json.loads(ln)
                done.add((d["line"], d["mutation"]))
            except Exception:
                pass
    try:
        with open(outp, "a") as out:
            for (ln, desc, new) in chosen:
                if (ln, desc) in done:
                    continue
                mutated = list(lines)
                mutated[ln - 1] = new
                open(path, "w").write("\n".join(mutated))
                rec = {"file": rel, "line": ln, "mutation": desc, "old": lines[ln - 1].strip(), "new": new.strip()}
                try:
                    compile("\n".join(mutated), path, "exec")
                except SyntaxError:
                    continue
                ok, tail = run_tests(repo, home)
                rec["tests_pass"] = ok
                if ok:
                    rec["checks"] = {}
                    for pid in props_for(rel, ln, ranges):
                        r = subprocess.run(["./check", pid, "--tier", "quick", "--no-evidence"], cwd=VERIF, env=dict(os.environ, VF_REPO=repo),
                                           capture_output=True, text=True)
                        rec["checks"][pid] = {"exit": r.returncode, "detected": r.returncode == 1 and "VIOLATION property=" in r.stdout}
                    rec["survived"] = not any(c["detected"] for c in rec["checks"].values())
                    print("  L%d %s | %s | %s" % (ln, desc, "SURVIVED" if rec["survived"] else "killed", {k: v["exit"] for k, v in rec["checks"].items()}), flush=True)
                out.write(json.dumps(rec) + "\n")
                out.flush()
    finally:
        open(path, "w").write(original)
        shutil.rmtree(base, ignore_errors=True)


if __name__ == "__main__":
    main()
