#!/usr/bin/env python3
"""Sensitivity helper: run a command against a scratch copy of /repo with a change applied.

  tools/mutate.py [--patch FILE]... [--sub 'evo/core/x.py@@OLD@@NEW']... [--tests] -- ./check C09

The copy lives under /tmp, VF_REPO points the checks at it, and it is removed afterwards.
--tests additionally runs the 82 pinned tests against the copy and reports pass/fail counts.
"""
import os, shutil, subprocess, sys, tempfile

def main():
    argv = sys.argv[1:]
    if "--" in argv:
        i = argv.index("--"); opts, cmd = argv[:i], argv[i + 1:]
    else:
        opts, cmd = argv, []
    patches, subs, tests = [], [], False
    it = iter(opts)
    for o in it:
        if o == "--patch": patches.append(os.path.abspath(next(it)))
        elif o == "--sub": subs.append(next(it))
        elif o == "--tests": tests = True
        else: sys.exit("unknown option " + o)
    d = tempfile.mkdtemp(prefix="vf_mut_")
    try:
        repo = os.path.join(d, "repo")
        shutil.copytree("/repo", repo, ignore=shutil.ignore_patterns(".git", "__pycache__", "*.pyc", "doc", "notebooks"))
        for p in patches:
            r = subprocess.run(["patch", "-p1", "-s", "-d", repo, "-i", p])
            if r.returncode: sys.exit("patch failed: " + p)
        for s in subs:
            f, old, new = s.split("@@", 2)
            path = os.path.join(repo, f)
            src = open(path).read()
            if src.count(old) != 1:
                sys.exit("substitution target occurs %d times in %s: %r" % (src.count(old), f, old))
            open(path, "w").write(src.replace(old, new))
        rc = 0
        if tests:
            r = subprocess.run("cd %s && /venv/bin/python -m pytest -q -p no:cacheprovider --timeout=900 -x -q 2>&1 | tail -3" % repo,
                               shell=True, env=dict(os.environ, HOME=d))
        if cmd:
            env = dict(os.environ, VF_REPO=repo)
            rc = subprocess.run(cmd, env=env, cwd="/verif").returncode
            print("[mutate] exit code", rc)
        return rc
    finally:
        shutil.rmtree(d, ignore_errors=True)

if __name__ == "__main__":
    sys.exit(main())
