#!/usr/bin/env python3
"""Writes MANIFEST.json from tools/manifest_entries.py (kept in one place so it stays valid)."""
import json, os, sys
sys.path.insert(0, os.path.dirname(os.path.abspath(__file__)))
from manifest_entries import ENTRIES, NOT_APPLICABLE, NOTES
here = os.path.dirname(os.path.dirname(os.path.abspath(__file__)))
props = [json.loads(l)["id"] for l in open(os.path.join(here, "properties.jsonl"))]
checks = []
for pid in props:
    if pid not in ENTRIES:
        continue
    e = ENTRIES[pid]
    checks.append({
        "property_id": pid,
        "quick_cmd": "./check %s --tier quick" % pid,
        "thorough_cmd": "./check %s --tier thorough" % pid,
        "evidence_file": "evidence/%s.json" % pid,
        "replay_cmd_template": "./check %s --replay {path}" % pid,
        "engine": e.get("engine", "vf"),
        "level_claimed": {"category": e.get("category", "exploration"), "text": e["text"], "design_ref": e["design_ref"]},
        "level_note": e["note"],
        "technique": e["technique"],
    })
na = [{"property_id": p, "reason": NOT_APPLICABLE.get(p, "check not implemented yet in this revision of /verif (work in progress, see DESIGN.md section 5)")}
      for p in props if p not in ENTRIES]
m = {
    "version": 1,
    "setup_cmd": "./setup.sh",
    "hooks": {"guard": "EVO_VERIF", "enable": "none needed: the checks import /repo's working tree directly (PYTHONPATH=/repo, python -B); no source hooks exist",
              "baseline_off_cmd": "cd /repo && /venv/bin/python -m pytest -ra -q -p no:cacheprovider --timeout=900 --continue-on-collection-errors",
              "source_commits": [], "add_only": True},
    "engines": [{"name": "vf", "path": "vf/", "serves_properties": [c["property_id"] for c in checks],
                 "kind_free_text": "Hypothesis strategies / rule-based state machines, exhaustive enumeration of small finite domains, atheris fuzzing, LD_PRELOAD fault injection; independent reference model in vf/refmodel.py"}],
    "checks": checks,
    "notes": NOTES,
    "not_applicable": na,
}
json.dump(m, open(os.path.join(here, "MANIFEST.json"), "w"), indent=1)
print("MANIFEST.json: %d checks, %d not_applicable" % (len(checks), len(na)))
