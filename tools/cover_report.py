#!/venv/bin/python
"""Merge VF_COVER dumps and list, per evo module, executable lines never reached.

usage: VF_COVER=/tmp/cov ./check C01 ... ; tools/cover_report.py /tmp/cov [module ...]
"""
import ast, glob, json, os, sys

def executable_lines(path):
    src = open(path).read()
    tree = ast.parse(src)
    lines = set()
    for node in ast.walk(tree):
        if isinstance(node, ast.stmt) and not isinstance(node, (ast.FunctionDef, ast.ClassDef, ast.AsyncFunctionDef)):
            # skip docstrings
            if isinstance(node, ast.Expr) and isinstance(node.value, ast.Constant) and isinstance(node.value.value, str):
                continue
            lines.add(node.lineno)
    return lines, src.splitlines()

def main():
    d = sys.argv[1]
    want = sys.argv[2:]
    root = os.environ.get("VF_REPO", "/repo") + "/evo/"
    hits = {}
    for f in glob.glob(os.path.join(d, "*.json")):
        for fn, ln in json.load(open(f)):
            hits.setdefault(fn, set()).add(ln)
    for dirpath, _, files in os.walk(root):
        for f in sorted(files):
            if not f.endswith(".py"):
                continue
            rel = os.path.relpath(os.path.join(dirpath, f), root)
            if want and not any(w in rel for w in want):
                continue
            ex, src = executable_lines(os.path.join(dirpath, f))
            h = hits.get(rel, set())
            miss = sorted(ex - h)
            print("== %s: %d/%d executable lines reached" % (rel, len(ex & h), len(ex)))
            if want:
                for ln in miss:
                    print("   %4d %s" % (ln, src[ln - 1].rstrip()[:110]))

main()
