#!/bin/bash
# Offline set-up of the verification machinery (idempotent). Nothing is fetched from a network.
set -u
cd "$(dirname "$0")" || exit 1
export PIP_NO_INDEX=1
WH=/opt/veriftools/wheels
PY=/venv/bin/python
mkdir -p .deps .build evidence replays
if ! $PY -c "import hypothesis" 2>/dev/null; then
  /venv/bin/pip install --no-index --find-links $WH hypothesis || { echo "setup: cannot install hypothesis"; exit 1; }
fi
if ! PYTHONPATH=$PWD/.deps $PY -c "import atheris" 2>/dev/null; then
  /venv/bin/pip install --no-index --find-links $WH --target $PWD/.deps atheris >/dev/null 2>&1 \
    || echo "setup: atheris not installable (fuzz sub-checks will report themselves as skipped)"
fi
if [ -f vf/fsshim/fsshim.c ]; then
  gcc -O1 -shared -fPIC -o .build/fsshim.so vf/fsshim/fsshim.c -ldl || { echo "setup: cannot build fsshim"; exit 1; }
fi
echo "setup ok"
