"""Independent reference model: written from the published definitions, never imports evo.

Conventions: quaternions are (w, x, y, z); poses are 4x4 homogeneous matrices; rotation vectors
are axis*angle.
"""
import math
from fractions import Fraction

import numpy as np

EPS = float(np.finfo(float).eps)

# --------------------------------------------------------------------------------------------
# rotations
# --------------------------------------------------------------------------------------------


def quat_to_R(q):
    """unit quaternion (w,x,y,z) -> rotation matrix (normalises first, like any consumer must)."""
    w, x, y, z = (float(v) for v in q)
    n = math.sqrt(w * w + x * x + y * y + z * z)
    if n == 0.0:
        return np.eye(3)
    w, x, y, z = w / n, x / n, y / n, z / n
    return np.array([
        [1 - 2 * (y * y + z * z), 2 * (x * y - z * w), 2 * (x * z + y * w)],
        [2 * (x * y + z * w), 1 - 2 * (x * x + z * z), 2 * (y * z - x * w)],
        [2 * (x * z - y * w), 2 * (y * z + x * w), 1 - 2 * (x * x + y * y)],
    ])


def R_to_quat(R):
    """rotation matrix -> unit quaternion (w,x,y,z), Shepperd's method, w >= 0 where possible."""
    R = np.asarray(R, dtype=float)
    t = R[0, 0] + R[1, 1] + R[2, 2]
    if t > 0:
        s = math.sqrt(t + 1.0) * 2
        w = 0.25 * s
        x = (R[2, 1] - R[1, 2]) / s
        y = (R[0, 2] - R[2, 0]) / s
        z = (R[1, 0] - R[0, 1]) / s
    elif R[0, 0] > R[1, 1] and R[0, 0] > R[2, 2]:
        s = math.sqrt(1.0 + R[0, 0] - R[1, 1] - R[2, 2]) * 2
        w = (R[2, 1] - R[1, 2]) / s
        x = 0.25 * s
        y = (R[0, 1] + R[1, 0]) / s
        z = (R[0, 2] + R[2, 0]) / s
    elif R[1, 1] > R[2, 2]:
        s = math.sqrt(1.0 + R[1, 1] - R[0, 0] - R[2, 2]) * 2
        w = (R[0, 2] - R[2, 0]) / s
        x = (R[0, 1] + R[1, 0]) / s
        y = 0.25 * s
        z = (R[1, 2] + R[2, 1]) / s
    else:
        s = math.sqrt(1.0 + R[2, 2] - R[0, 0] - R[1, 1]) * 2
        w = (R[1, 0] - R[0, 1]) / s
        x = (R[0, 2] + R[2, 0]) / s
        y = (R[1, 2] + R[2, 1]) / s
        z = 0.25 * s
    q = np.array([w, x, y, z])
    q /= np.linalg.norm(q)
    return q


def hat(v):
    return np.array([[0.0, -v[2], v[1]], [v[2], 0.0, -v[0]], [-v[1], v[0], 0.0]])


def rodrigues(v):
    """exp of a rotation vector; series near 0 so that tiny angles keep full precision."""
    v = np.asarray(v, dtype=float)
    th = float(np.linalg.norm(v))
    K = hat(v)
    if th < 1e-4:
        a = 1.0 - th * th / 6.0 + th ** 4 / 120.0
        b = 0.5 - th * th / 24.0 + th ** 4 / 720.0
    else:
        a = math.sin(th) / th
        b = (1.0 - math.cos(th)) / (th * th)
    return np.eye(3) + a * K + b * (K @ K)


def rot_angle(R):
    """rotation angle in [0, pi], well conditioned at both ends (atan2 of sine and cosine parts)."""
    R = np.asarray(R, dtype=float)
    s = 0.5 * math.sqrt((R[2, 1] - R[1, 2]) ** 2 + (R[0, 2] - R[2, 0]) ** 2 + (R[1, 0] - R[0, 1]) ** 2)
    c = 0.5 * (R[0, 0] + R[1, 1] + R[2, 2] - 1.0)
    # near pi the sine part loses its relative accuracy only in absolute terms ~eps, which is fine
    return math.atan2(s, c)


def rot_angle_between(A, B):
    return rot_angle(np.asarray(A).T @ np.asarray(B))


def orthonormality_defect(R):
    R = np.asarray(R, dtype=float)
    return float(np.linalg.norm(R.T @ R - np.eye(3)))


def random_unit_quat(rng):
    q = rng.standard_normal(4)
    n = np.linalg.norm(q)
    if n < 1e-12:
        return np.array([1.0, 0, 0, 0])
    return q / n


# --------------------------------------------------------------------------------------------
# SE(3) / Sim(3)
# --------------------------------------------------------------------------------------------


def se3(R, t):
    T = np.eye(4)
    T[:3, :3] = R
    T[:3, 3] = t
    return T


def se3_inv(T):
    R = T[:3, :3]
    t = T[:3, 3]
    return se3(R.T, -(R.T @ t))


def rel(A, B):
    return se3_inv(A) @ B


def sim3(R, t, s):
    T = np.eye(4)
    T[:3, :3] = s * np.asarray(R)
    T[:3, 3] = t
    return T


def sim3_inv(S):
    M = S[:3, :3]
    s = float(np.cbrt(np.linalg.det(M)))
    R = M / s
    return sim3(R.T, -(R.T @ S[:3, 3]) / s, 1.0 / s)


def pose_from(p, q):
    return se3(quat_to_R(q), np.asarray(p, dtype=float))


def poses_from(P, Q):
    return [pose_from(p, q) for p, q in zip(P, Q)]


# --------------------------------------------------------------------------------------------
# metric definitions
# --------------------------------------------------------------------------------------------

RELATIONS = ("full_transformation", "translation_part", "rotation_part", "rotation_angle_rad",
             "rotation_angle_deg", "point_distance", "point_distance_error_ratio")


def reduce_error_pose(E, relation):
    if relation == "translation_part":
        return float(np.linalg.norm(E[:3, 3]))
    if relation == "rotation_part":
        return float(np.linalg.norm(E[:3, :3] - np.eye(3)))
    if relation == "full_transformation":
        return float(np.linalg.norm(E - np.eye(4)))
    if relation == "rotation_angle_rad":
        return rot_angle(E[:3, :3])
    if relation == "rotation_angle_deg":
        return math.degrees(rot_angle(E[:3, :3]))
    raise ValueError(relation)


def ape_values(ref_poses, est_poses, relation):
    """APE per pose: E_i = est_i^-1 ref_i, reduced; translation/point distance = |p_est - p_ref|."""
    out = []
    for Q, P in zip(ref_poses, est_poses):
        if relation in ("translation_part", "point_distance"):
            out.append(float(np.linalg.norm(P[:3, 3] - Q[:3, 3])))
        else:
            out.append(reduce_error_pose(rel(P, Q), relation))
    return np.array(out)


def rpe_values(ref_poses, est_poses, pairs, relation):
    """RPE per pair: E = (Q_i^-1 Q_j)^-1 (P_i^-1 P_j). Returns (values, kept pair indices)."""
    out = []
    kept = []
    for k, (i, j) in enumerate(pairs):
        Qi, Qj, Pi, Pj = ref_poses[i], ref_poses[j], est_poses[i], est_poses[j]
        if relation in ("point_distance", "point_distance_error_ratio"):
            dr = float(np.linalg.norm(Qj[:3, 3] - Qi[:3, 3]))
            de = float(np.linalg.norm(Pj[:3, 3] - Pi[:3, 3]))
            if relation == "point_distance":
                out.append(abs(dr - de))
                kept.append(k)
            else:
                if dr == 0.0:
                    continue
                out.append(abs(dr - de) / dr * 100.0)
                kept.append(k)
        else:
            E = rel(rel(Qi, Qj), rel(Pi, Pj))
            out.append(reduce_error_pose(E, relation))
            kept.append(k)
    return np.array(out), kept


# --------------------------------------------------------------------------------------------
# statistics (math.fsum)
# --------------------------------------------------------------------------------------------


def statistics(values):
    v = [float(x) for x in values]
    n = len(v)
    mean = math.fsum(v) / n
    sse = math.fsum(x * x for x in v)
    rmse = math.sqrt(sse / n)
    var = math.fsum((x - mean) ** 2 for x in v) / n
    s = sorted(v)
    median = s[n // 2] if n % 2 else 0.5 * (s[n // 2 - 1] + s[n // 2])
    return {"rmse": rmse, "mean": mean, "median": median, "std": math.sqrt(var), "min": s[0],
            "max": s[-1], "sse": sse}


# --------------------------------------------------------------------------------------------
# least-squares alignment: Horn's quaternion method (different algorithm from SVD/Kabsch)
# --------------------------------------------------------------------------------------------


def horn(x, y, with_scale):
    """x, y: 3xn. Returns R, t, c minimising sum |y - (c R x + t)|^2 (c = 1 if not with_scale)."""
    x = np.asarray(x, dtype=float)
    y = np.asarray(y, dtype=float)
    mx = x.mean(axis=1, keepdims=True)
    my = y.mean(axis=1, keepdims=True)
    xc = x - mx
    yc = y - my
    M = xc @ yc.T  # sum x y^T
    Sxx, Sxy, Sxz = M[0]
    Syx, Syy, Syz = M[1]
    Szx, Szy, Szz = M[2]
    N = np.array([
        [Sxx + Syy + Szz, Syz - Szy, Szx - Sxz, Sxy - Syx],
        [Syz - Szy, Sxx - Syy - Szz, Sxy + Syx, Szx + Sxz],
        [Szx - Sxz, Sxy + Syx, -Sxx + Syy - Szz, Syz + Szy],
        [Sxy - Syx, Szx + Sxz, Syz + Szy, -Sxx - Syy + Szz],
    ])
    w, V = np.linalg.eigh(N)
    q = V[:, -1]
    R = quat_to_R(q)
    if with_scale:
        den = float(np.sum(xc * xc))
        c = float(np.sum(yc * (R @ xc)) / den) if den > 0 else 1.0
    else:
        c = 1.0
    t = (my - c * (R @ mx)).ravel()
    gap = float(w[-1] - w[-2])
    return R, t, c, gap


def covariance_singular_values(x, y):
    x = np.asarray(x, dtype=float)
    y = np.asarray(y, dtype=float)
    n = x.shape[1]
    xc = x - x.mean(axis=1, keepdims=True)
    yc = y - y.mean(axis=1, keepdims=True)
    C = (yc @ xc.T) / n
    return np.linalg.svd(C, compute_uv=False), float(np.linalg.det(C))


def exact_cost(x, y, R, t, c):
    """sum_i |y_i - (c R x_i + t)|^2 evaluated in exact rational arithmetic; returned as Fraction."""
    Rf = [[Fraction(float(R[i][j])) for j in range(3)] for i in range(3)]
    tf = [Fraction(float(v)) for v in t]
    cf = Fraction(float(c))
    total = Fraction(0)
    x = np.asarray(x, dtype=float)
    y = np.asarray(y, dtype=float)
    for k in range(x.shape[1]):
        xv = [Fraction(float(x[i, k])) for i in range(3)]
        for i in range(3):
            pred = cf * (Rf[i][0] * xv[0] + Rf[i][1] * xv[1] + Rf[i][2] * xv[2]) + tf[i]
            d = Fraction(float(y[i, k])) - pred
            total += d * d
    return total


def exact_sq_dist_sum(A, B):
    """sum |a_i - b_i|^2 exactly (rows are points)."""
    total = Fraction(0)
    for a, b in zip(np.asarray(A, dtype=float), np.asarray(B, dtype=float)):
        for u, v in zip(a, b):
            d = Fraction(float(u)) - Fraction(float(v))
            total += d * d
    return total


# --------------------------------------------------------------------------------------------
# path quantities
# --------------------------------------------------------------------------------------------


def step_lengths(P):
    P = np.asarray(P, dtype=float)
    return [math.sqrt(math.fsum(((P[i + 1][k] - P[i][k]) ** 2 for k in range(3)))) for i in range(len(P) - 1)]


def accumulated(P):
    acc = [0.0]
    tot = 0.0
    steps = step_lengths(P)
    for k in range(len(steps)):
        acc.append(math.fsum(steps[:k + 1]))
    return acc


# --------------------------------------------------------------------------------------------
# text formats: strict parsers / writers of the published conventions
# --------------------------------------------------------------------------------------------

import re

_DEC = re.compile(r"^[+-]?(\d+\.?\d*|\.\d+)([eE][+-]?\d+)?$")


def is_strict_decimal(tok):
    return bool(_DEC.match(tok))


def fmt17(v):
    return repr(float(v))


def write_tum(stamps, P, Q_wxyz, spell=None):
    lines = []
    spell = spell or fmt17
    for t, p, q in zip(stamps, P, Q_wxyz):
        vals = [t, p[0], p[1], p[2], q[1], q[2], q[3], q[0]]
        lines.append(" ".join(spell(v) for v in vals))
    return "\n".join(lines) + "\n"


def write_kitti(poses, spell=None):
    spell = spell or fmt17
    lines = []
    for T in poses:
        lines.append(" ".join(spell(v) for v in np.asarray(T)[:3, :].reshape(-1)))
    return "\n".join(lines) + "\n"


def write_euroc(stamps_ns, P, Q_wxyz, extra_cols=0, spell=None, header=True):
    spell = spell or fmt17
    lines = []
    if header:
        lines.append("#timestamp, p_RS_R_x [m], p_RS_R_y [m], p_RS_R_z [m], q_RS_w [], q_RS_x [], q_RS_y [], q_RS_z []")
    for t, p, q in zip(stamps_ns, P, Q_wxyz):
        vals = [str(int(t))] + [spell(v) for v in (p[0], p[1], p[2], q[0], q[1], q[2], q[3])]
        vals += [spell(0.0)] * extra_cols
        lines.append(",".join(vals))
    return "\n".join(lines) + "\n"


def _data_lines(text):
    if text.startswith("﻿"):
        text = text[1:]
    out = []
    for ln in text.replace("\r\n", "\n").split("\n"):
        if ln.startswith("#"):
            continue
        out.append(ln)
    if out and out[-1] == "":
        out.pop()
    return out


class Malformed(Exception):
    pass


def parse_table(text, delim, ncols=None, min_cols=None):
    rows = []
    for ln in _data_lines(text):
        toks = ln.split(delim)
        if ncols is not None and len(toks) != ncols:
            raise Malformed("column count %d" % len(toks))
        if min_cols is not None and len(toks) < min_cols:
            raise Malformed("column count %d" % len(toks))
        if rows and len(toks) != len(rows[0]):
            raise Malformed("ragged")
        vals = []
        for tk in toks:
            if not is_strict_decimal(tk):
                raise Malformed("token %r" % tk)
            vals.append(float(tk))
        rows.append(vals)
    if not rows:
        raise Malformed("no data rows")
    return rows


def parse_tum(text):
    rows = np.array(parse_table(text, " ", ncols=8))
    stamps = rows[:, 0]
    P = rows[:, 1:4]
    Q = np.column_stack([rows[:, 7], rows[:, 4], rows[:, 5], rows[:, 6]])
    return stamps, P, Q


def parse_kitti(text):
    rows = np.array(parse_table(text, " ", ncols=12))
    poses = []
    for r in rows:
        T = np.eye(4)
        T[:3, :] = r.reshape(3, 4)
        poses.append(T)
    return poses


def parse_euroc(text):
    rows = parse_table(text, ",", min_cols=8)
    rows = np.array(rows)
    return rows[:, 0], rows[:, 1:4], rows[:, 4:8]
