"""Core types of the verification framework: sub-checks, mismatches, reports."""
import hashlib
import json
import math


class Mismatch(Exception):
    """A sub-check found the property violated for the current case.

    ``tags`` describe the class of the input and the observed wrong behaviour; they are what
    a known-findings entry is matched against.
    """

    def __init__(self, msg, **tags):
        super().__init__(msg)
        self.msg = msg
        self.tags = tags


class HarnessError(Exception):
    """The machinery itself is broken (never reported as a VIOLATION)."""


class Skip(Exception):
    """Case is outside the decidable domain (ambiguous margin etc.): counted, not judged."""

    def __init__(self, reason):
        super().__init__(reason)
        self.reason = reason


def canon(case):
    return json.dumps(case, sort_keys=True, separators=(",", ":"), default=_default)


def _default(o):
    # numpy scalars / arrays that slipped into a case
    try:
        import numpy as np
        if isinstance(o, np.ndarray):
            return o.tolist()
        if isinstance(o, np.generic):
            return o.item()
    except Exception:
        pass
    raise TypeError(type(o))


def case_hash(case):
    return hashlib.sha1(canon(case).encode()).hexdigest()[:16]


def abbreviate(obj, maxlen=12, depth=0):
    """Shorten a case for the evidence samples."""
    if isinstance(obj, dict):
        return {k: abbreviate(v, maxlen, depth + 1) for k, v in obj.items()}
    if isinstance(obj, (list, tuple)):
        if len(obj) > maxlen:
            head = [abbreviate(v, maxlen, depth + 1) for v in obj[:maxlen // 2]]
            return head + ["... %d more" % (len(obj) - maxlen // 2)]
        return [abbreviate(v, maxlen, depth + 1) for v in obj]
    if isinstance(obj, float):
        if math.isnan(obj) or math.isinf(obj):
            return repr(obj)
        return obj
    if isinstance(obj, str) and len(obj) > 400:
        return obj[:400] + "...(%d chars)" % len(obj)
    return obj


class Sub(object):
    """One named sub-check of a property.

    kind == "hyp":   ``strategy`` is a Hypothesis strategy producing JSON-serialisable cases,
                     ``fn(case)`` raises Mismatch / Skip / returns an optional class label.
    kind == "enum":  ``enum(tier)`` yields cases of a finite space, every one is executed
                     (sharded); ``exhaustive`` says whether that space is complete for the tier.
    kind == "custom": ``custom(ctx)`` returns a Report (fault enumeration, fuzz campaigns).
    """

    def __init__(self, name, fn=None, strategy=None, n_quick=200, n_thorough=5000, nontrivial=None,
                 classify=None, kind="hyp", enum=None, custom=None, shards_quick=4,
                 shards_thorough=16, rule="", exhaustive_tiers=(), max_shrink_s=None,
                 state_machine=None, steps=20):
        self.name = name
        self.fn = fn
        self.strategy = strategy
        self.n_quick = n_quick
        self.n_thorough = n_thorough
        self.nontrivial = nontrivial or (lambda case: True)
        self.classify = classify
        self.kind = kind
        self.enum = enum
        self.custom = custom
        self.shards_quick = shards_quick
        self.shards_thorough = shards_thorough
        self.rule = rule
        self.exhaustive_tiers = exhaustive_tiers
        self.max_shrink_s = max_shrink_s
        self.state_machine = state_machine
        self.steps = steps


class Report(object):
    """What one unit of work covered. Mergeable."""

    def __init__(self):
        self.evaluations = 0
        self.shrink_evaluations = 0
        self.nontrivial = set()
        self.classes = {}
        self.samples = {}
        self.violations = []  # dicts: sub, case, message, tags
        self.known = {}       # kf id -> count
        self.skipped = {}     # reason -> count
        self.exhaustive = {}  # sub -> bool
        self.per_sub = {}     # sub -> evaluations
        self.notes = []
        self.harness_errors = []
        self.nontrivial_extra = 0  # distinct-by-construction cases of enumerations

    def count_many(self, sub, n_eval, n_nontrivial, label=None, sample=None):
        """for enumerations whose cases are distinct by construction"""
        self.evaluations += n_eval
        self.per_sub[sub] = self.per_sub.get(sub, 0) + n_eval
        key = "%s:%s" % (sub, label) if label else sub
        self.classes[key] = self.classes.get(key, 0) + n_eval
        self.nontrivial_extra += n_nontrivial
        if sample is not None and key not in self.samples:
            self.samples[key] = abbreviate(sample)

    def count(self, sub, case, label=None, nontrivial=True, h=None):
        self.evaluations += 1
        self.per_sub[sub] = self.per_sub.get(sub, 0) + 1
        key = "%s:%s" % (sub, label) if label else sub
        self.classes[key] = self.classes.get(key, 0) + 1
        if nontrivial:
            self.nontrivial.add(h or case_hash(case))
        if key not in self.samples:
            self.samples[key] = abbreviate(case)

    def skip(self, reason):
        self.skipped[reason] = self.skipped.get(reason, 0) + 1

    def merge(self, other):
        self.evaluations += other.evaluations
        self.shrink_evaluations += other.shrink_evaluations
        self.nontrivial |= other.nontrivial
        self.nontrivial_extra += other.nontrivial_extra
        for k, v in other.classes.items():
            self.classes[k] = self.classes.get(k, 0) + v
        for k, v in other.samples.items():
            self.samples.setdefault(k, v)
        self.violations.extend(other.violations)
        for k, v in other.known.items():
            self.known[k] = self.known.get(k, 0) + v
        for k, v in other.skipped.items():
            self.skipped[k] = self.skipped.get(k, 0) + v
        for k, v in other.exhaustive.items():
            self.exhaustive[k] = self.exhaustive.get(k, True) and v
        for k, v in other.per_sub.items():
            self.per_sub[k] = self.per_sub.get(k, 0) + v
        self.notes.extend(other.notes)
        self.harness_errors.extend(other.harness_errors)
        return self
