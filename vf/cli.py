"""In-process driver for the evo command line tools: real argparse parser -> merge_config -> run().

State that evo keeps globally is reset at the top of every run: the SETTINGS container (a -c file
mutates it for the rest of the process), the handlers of the ``evo`` logger, pyplot figures,
``builtins.input``.
"""
import builtins
import contextlib
import io
import json
import logging
import os
import sys
from importlib import import_module


class Script(object):
    """scripted replacement for input(): records prompts, returns the drawn answers"""

    def __init__(self, answers=(), default="n"):
        self.answers = list(answers)
        self.default = default
        self.prompts = []

    def __call__(self, prompt=""):
        self.prompts.append(prompt)
        if self.answers:
            return self.answers.pop(0)
        return self.default


def reset_state():
    from evo.tools.settings import SETTINGS
    from evo.tools.settings_template import DEFAULT_SETTINGS_DICT
    for k in list(SETTINGS.keys()):
        if k == "__locked__":
            continue
        if k in DEFAULT_SETTINGS_DICT:
            SETTINGS[k] = DEFAULT_SETTINGS_DICT[k]
        else:
            del SETTINGS[k]
    for k, v in DEFAULT_SETTINGS_DICT.items():
        SETTINGS[k] = v
    SETTINGS["global_logfile_enabled"] = False
    lg = logging.getLogger("evo")
    for h in list(lg.handlers):
        lg.removeHandler(h)
        try:
            h.close()
        except Exception:
            pass
    if "matplotlib.pyplot" in sys.modules:
        sys.modules["matplotlib.pyplot"].close("all")


class Outcome(object):
    def __init__(self):
        self.exit_code = 0
        self.prompts = []
        self.refused = None  # documented refusal (EvoException / FileNotFoundError / SystemExit(!=0))
        self.stdout = ""
        self.args = None


def run(app, argv, answers=(), default_answer="n", cwd=None, settings_overrides=None):
    """app in {'ape','rpe','traj','res'}; returns Outcome. Exceptions that are not documented refusals propagate."""
    from evo import EvoException
    reset_state()
    if settings_overrides:
        from evo.tools.settings import SETTINGS
        for k, v in settings_overrides.items():
            SETTINGS[k] = v
    out = Outcome()
    script = Script(answers, default_answer)
    old_input = builtins.input
    old_cwd = os.getcwd()
    buf = io.StringIO()
    builtins.input = script
    try:
        if cwd:
            os.chdir(cwd)
        with contextlib.redirect_stdout(buf), contextlib.redirect_stderr(io.StringIO()):
            parser_module = import_module("evo.main_%s_parser" % app)
            main_module = import_module("evo.main_%s" % app)
            from evo import entry_points
            try:
                args = parser_module.parser().parse_args(list(argv))
                if hasattr(args, "config"):
                    args = entry_points.merge_config(args)
                out.args = args
                main_module.run(args)
            except SystemExit as e:
                code = e.code if isinstance(e.code, int) else (0 if e.code is None else 1)
                out.exit_code = code
                if code != 0:
                    out.refused = "SystemExit(%r)" % (e.code,)
            except (EvoException, FileNotFoundError) as e:
                out.exit_code = 1
                out.refused = "%s: %s" % (type(e).__name__, e)
    finally:
        builtins.input = old_input
        os.chdir(old_cwd)
        out.prompts = script.prompts
        out.stdout = buf.getvalue()
        lg = logging.getLogger("evo")
        for h in list(lg.handlers):
            lg.removeHandler(h)
    return out


def run_config(argv, answers=(), default_answer="n", cwd=None):
    """evo_config in-process (its main() reads sys.argv)."""
    from evo import main_config
    reset_state()
    out = Outcome()
    script = Script(answers, default_answer)
    old_input, old_argv, old_cwd = builtins.input, sys.argv, os.getcwd()
    builtins.input = script
    sys.argv = ["evo_config"] + list(argv)
    buf = io.StringIO()
    try:
        if cwd:
            os.chdir(cwd)
        with contextlib.redirect_stdout(buf), contextlib.redirect_stderr(io.StringIO()):
            try:
                main_config.main()
            except SystemExit as e:
                code = e.code if isinstance(e.code, int) else (0 if e.code is None else 1)
                out.exit_code = code
                if code != 0:
                    out.refused = "SystemExit(%r)" % (e.code,)
    finally:
        builtins.input, sys.argv = old_input, old_argv
        os.chdir(old_cwd)
        out.prompts = script.prompts
        out.stdout = buf.getvalue()
        lg = logging.getLogger("evo")
        for h in list(lg.handlers):
            lg.removeHandler(h)
    return out


def write_json(path, obj):
    with open(path, "w") as f:
        json.dump(obj, f)
    return path


def read_archive(path):
    """independent reader of a result archive: zipfile + json + numpy.load + the strict TUM/KITTI parsers"""
    import zipfile
    import numpy as np
    from vf import refmodel as rm
    out = {"arrays": {}, "trajs": {}}
    with zipfile.ZipFile(path) as z:
        names = z.namelist()
        out["info"] = json.loads(z.read("info.json").decode("utf-8"))
        out["stats"] = json.loads(z.read("stats.json").decode("utf-8"))
        for n in names:
            if n.endswith(".npy"):
                out["arrays"][n[:-4]] = np.load(io.BytesIO(z.read(n)))
            elif n.endswith(".tum"):
                t, p, q = rm.parse_tum(z.read(n).decode("utf-8"))
                out["trajs"][n[:-4]] = {"T": t, "P": p, "Q": q, "poses": rm.poses_from(p, q)}
            elif n.endswith(".kitti"):
                poses = rm.parse_kitti(z.read(n).decode("utf-8"))
                out["trajs"][n[:-6]] = {"T": None, "P": np.array([m[:3, 3] for m in poses]), "Q": None, "poses": poses}
    return out
