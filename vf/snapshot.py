"""Bit-exact snapshots of evo objects without triggering their lazy caches."""
import copy

import numpy as np

_ATTRS = ("_positions_xyz", "_orientations_quat_wxyz", "_poses_se3", "timestamps", "meta", "_projected")


def _freeze(v):
    if isinstance(v, np.ndarray):
        return ("nd", v.dtype.str, v.shape, v.tobytes())
    if isinstance(v, (list, tuple)):
        return ("seq", type(v).__name__, tuple(_freeze(x) for x in v))
    if isinstance(v, dict):
        return ("dict", tuple(sorted((repr(k), _freeze(x)) for k, x in v.items())))
    if isinstance(v, float):
        return ("f", np.float64(v).tobytes())
    if isinstance(v, (int, str, bool, type(None), bytes)):
        return ("s", type(v).__name__, v)
    if isinstance(v, np.generic):
        return ("ng", v.dtype.str, v.tobytes())
    if hasattr(v, "__dict__"):
        return snapshot(v)
    return ("r", repr(v))


def snapshot(obj):
    """Snapshot of the attributes that exist right now (no property access)."""
    d = getattr(obj, "__dict__", None)
    if d is None:
        return _freeze(obj)
    return ("obj", type(obj).__name__, tuple(sorted((k, _freeze(v)) for k, v in d.items())))


def _diff_frozen(b, a, path, out):
    """recursive comparison; attributes / dict keys that are new in `a` are not changes"""
    if b == a:
        return
    if b[0] != a[0]:
        out.append(path or "<value>")
        return
    if b[0] == "obj":
        if b[1] != a[1]:
            out.append(path + "<type>")
            return
        bd, ad = dict(b[2]), dict(a[2])
        for k, v in bd.items():
            if k not in ad:
                out.append("%s%s (removed)" % (path, k))
            else:
                _diff_frozen(v, ad[k], "%s%s." % (path, k), out)
        return
    if b[0] == "dict":
        bd, ad = dict(b[1]), dict(a[1])
        if set(bd) != set(ad):
            out.append(path.rstrip(".") + " (keys)")
            return
        for k, v in bd.items():
            _diff_frozen(v, ad[k], "%s[%s]." % (path.rstrip("."), k), out)
        return
    if b[0] == "seq" and len(b) == 3 and len(a) == 3 and len(b[2]) == len(a[2]) and b[1] == a[1]:
        for i, (x, y) in enumerate(zip(b[2], a[2])):
            _diff_frozen(x, y, "%s[%d]." % (path.rstrip("."), i), out)
        return
    out.append(path.rstrip(".") or "<value>")


def diff(before, obj):
    """Names of pre-existing attributes that changed (newly materialised caches are not changes)."""
    out = []
    _diff_frozen(before, snapshot(obj), "", out)
    return out


def semantic_poses(traj):
    """The poses an evo trajectory describes *now*, computed with the reference conversions from
    whichever representation is stored, without touching lazy properties."""
    from vf import refmodel as rm
    d = traj.__dict__
    if "_poses_se3" in d:
        return [np.array(p, dtype=float, copy=True) for p in d["_poses_se3"]]
    return rm.poses_from(d["_positions_xyz"], d["_orientations_quat_wxyz"])


def views(traj):
    """All stored views as copies: dict name -> array (only those materialised)."""
    d = traj.__dict__
    out = {}
    for k in ("_positions_xyz", "_orientations_quat_wxyz", "timestamps"):
        if k in d:
            out[k] = np.array(d[k], copy=True)
    if "_poses_se3" in d:
        out["_poses_se3"] = np.array([np.array(p) for p in d["_poses_se3"]])
    return out
