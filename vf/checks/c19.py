"""C19 — The settings file stays loadable across crashes and concurrent starts (fault enumeration)."""
import copy
import itertools
import json
import os
import shutil
import subprocess
import sys
import tempfile

from hypothesis import strategies as st

from vf.core import Mismatch, Sub, Report, HarnessError

PROPERTY = "C19"
LEVEL = "fault_enumeration"
RULE = ("real evo processes under an LD_PRELOAD shim that turns every file-system call under ~/.evo into a step; crash points: for "
        "Hypothesis-drawn parameters of the scenarios {first start on an empty home, start after a version upgrade, evo_config "
        "reset -y, reset <keys>, set <key> <value>, set -m other.json [--soft]} EVERY step k is a kill point (write steps also "
        "after 0, 1, n/2, n-1 bytes), followed by a fresh un-shimmed start; schedules: two processes importing evo on one empty "
        "home, gated at every step, ALL schedules with <= 2 pre-emptions (thorough: <= 3, plus drawn three-process schedules). "
        "Non-trivial = crash point strictly inside the scenario's file-system activity / schedule with >= 1 pre-emption; cases "
        "are distinct by construction (scenario, parameters, step, bytes) / (pre-emption list)")
ASSUMPTIONS = ["a killed process: effects of completed system calls persist (power loss / un-synced data not modelled)",
               "the shim sees libc-level calls of the CPython interpreter in /venv (open/openat/write/rename/mkdir/stat families)"]
VERIF = os.path.dirname(os.path.dirname(os.path.dirname(os.path.abspath(__file__))))
SHIM = os.path.join(VERIF, ".build", "fsshim.so")
REPO = os.environ.get("VF_REPO", "/repo")
PY = sys.executable

START_SNIPPET = "import json, evo.tools.settings as s; print('KEYS=' + json.dumps({k: v for k, v in s.SETTINGS.items() if k != '__locked__'}))"
CONFIG_SNIPPET = "import sys; sys.argv = ['evo_config'] + %r; from evo import main_config; main_config.main()"


def _defaults():
    from evo.tools.settings_template import DEFAULT_SETTINGS_DICT
    return copy.deepcopy(DEFAULT_SETTINGS_DICT)


def _version():
    import evo
    return evo.__version__


def _env(home, extra=None, shim=True):
    env = {"HOME": home, "PATH": os.environ.get("PATH", ""), "PYTHONPATH": REPO, "PYTHONNOUSERSITE": "1", "PYTHONDONTWRITEBYTECODE": "1",
           "PYTHONHASHSEED": "0", "MPLBACKEND": "Agg", "OPENBLAS_NUM_THREADS": "1", "OMP_NUM_THREADS": "1", "PYTHONWARNINGS": "ignore"}
    if shim:
        if not os.path.exists(SHIM):
            raise HarnessError("fsshim.so not built (run ./setup.sh)")
        env["LD_PRELOAD"] = SHIM
        env["VF_ROOT"] = os.path.join(home, ".evo")
    if extra:
        env.update(extra)
    return env


def _run(code, home, extra=None, shim=True, cwd=None):
    return subprocess.run([PY, "-B", "-s", "-c", code], env=_env(home, extra, shim), cwd=cwd or home, stdout=subprocess.PIPE, stderr=subprocess.PIPE,
                          timeout=120)


def _prestate(home, scenario, params):
    """creates the home directory content before the scenario; returns the user values dict expected to survive"""
    os.makedirs(home, exist_ok=True)
    user = dict(params.get("user", {}))
    evo_dir = os.path.join(home, ".evo")
    if scenario == "first_start":
        return {}
    os.makedirs(evo_dir)
    data = _defaults()
    data.update(user)
    if scenario == "upgrade":
        for k in params.get("removed", []):
            if k not in user:
                data.pop(k, None)
        for k in params.get("obsolete", []):
            data[k] = 1   # parameters of the older evo that no longer exist
        open(os.path.join(evo_dir, "assets_version"), "w").write(params.get("old_version", "v1.0.0"))
    else:
        open(os.path.join(evo_dir, "assets_version"), "w").write(_version())
    with open(os.path.join(evo_dir, "settings.json"), "w") as f:
        f.write(json.dumps(data, indent=4, sort_keys=True))
    return user


def _command(scenario, params, home):
    if scenario in ("first_start", "upgrade"):
        return START_SNIPPET, set()
    if scenario == "reset_all":
        return CONFIG_SNIPPET % (["reset", "-y"],), "all"
    if scenario == "reset_keys":
        return CONFIG_SNIPPET % (["reset"] + list(params["keys"]),), set(params["keys"])
    # explicit_c: the package settings file named explicitly with -c (the same file, given as a plain string path)
    explicit = ["-c", os.path.join(home, ".evo", "settings.json")] if params.get("explicit_c") else []
    if scenario == "set":
        return CONFIG_SNIPPET % (["set"] + explicit + [str(t) for t in params["tokens"]],), set(t for t in params["tokens"] if t in _defaults())
    if scenario == "merge":
        other = os.path.join(home, "other.json")
        with open(other, "w") as f:
            json.dump(params["other"], f)
        argv = ["set"] + explicit + ["-m", other] + (["--soft"] if params["soft"] else [])
        return CONFIG_SNIPPET % (argv,), set(params["other"])
    raise ValueError(scenario)


def _settings_state(home):
    """'absent' | ('ok', dict) | ('bad', reason)"""
    p = os.path.join(home, ".evo", "settings.json")
    if not os.path.exists(p):
        return "absent"
    raw = open(p, "rb").read()
    try:
        d = json.loads(raw.decode("utf-8"))
    except Exception as e:  # noqa
        return ("bad", "%d bytes, not a JSON document: %s" % (len(raw), str(e)[:80]))
    if not isinstance(d, dict):
        return ("bad", "JSON value is not an object")
    return ("ok", d)


def _steps(log):
    if not os.path.exists(log):
        return []
    out = []
    for ln in open(log):
        parts = ln.rstrip("\n").split(" ")
        out.append((int(parts[0]), parts[1], parts[2], int(parts[3])))
    return out


def crash_case(case, rep=None):
    """enumerate all crash points of one scenario instance; returns (n_runs, n_nontrivial)"""
    scenario, params = case["scenario"], case["params"]
    base = tempfile.mkdtemp(prefix="c19_", dir=os.getcwd())
    only = case.get("only")  # (step, bytes) for replay
    # 1. record
    home = os.path.join(base, "rec")
    user = _prestate(home, scenario, params)
    code, targets = _command(scenario, params, home)
    log = os.path.join(base, "rec.log")
    r = _run(code, home, {"VF_LOG": log})
    if r.returncode != 0:
        # the scenario itself fails without any fault: judged as a refusal of the edit (set with odd tokens) -> state must still be fine
        state = _settings_state(home)
        if isinstance(state, tuple) and state[0] == "bad":
            raise Mismatch("scenario %s failed (%s) and left a broken settings file: %s" % (scenario, r.stderr.decode()[-200:], state[1]),
                           observed="broken_file", scenario=scenario, op="no_fault")
    else:
        # the scenario run to completion without any fault: the file is complete and a later start sees every default key
        state = _settings_state(home)
        if state == "absent" or (isinstance(state, tuple) and state[0] == "bad"):
            raise Mismatch("scenario %s %s completed, settings.json on disk is %s" % (scenario, params, state if state == "absent" else state[1]),
                           observed="broken_file", scenario=scenario, op="no_fault")
        r2 = _run(START_SNIPPET, home, shim=False)
        if r2.returncode != 0:
            raise Mismatch("scenario %s %s completed, but the next evo start fails: %s" % (
                scenario, params, r2.stderr.decode().strip().splitlines()[-1][:200] if r2.stderr else r2.returncode), observed="next_start_fails",
                scenario=scenario, op="no_fault")
        keys_line = [ln for ln in r2.stdout.decode().splitlines() if ln.startswith("KEYS=")]
        loaded = json.loads(keys_line[0][5:])
        missing = [kk for kk in _defaults() if kk not in loaded]
        if missing:
            raise Mismatch("scenario %s %s completed, but the next start does not see default keys %s" % (scenario, params, missing[:5]),
                           observed="keys_missing", scenario=scenario, op="no_fault")
    steps = _steps(log)
    if not steps:
        raise HarnessError("shim recorded no steps for scenario %s: %s" % (scenario, r.stderr.decode()[-300:]))
    points = []
    for (k, op, path, nbytes) in steps:
        points.append((k, -1, op))
        if op == "write" and nbytes > 0:
            for m in sorted(set([0, 1, nbytes // 2, nbytes - 1])):
                if 0 <= m < nbytes:
                    points.append((k, m, op))
    if only:
        points = [p for p in points if p[0] == only[0] and p[1] == only[1]]
    runs = nt = 0
    defaults = _defaults()
    for (k, m, op) in points:
        home = os.path.join(base, "k%d_%d" % (k, m))
        user = _prestate(home, scenario, params)
        code, targets = _command(scenario, params, home)
        kill = "%d" % k if m < 0 else "%d:%d" % (k, m)
        r = _run(code, home, {"VF_KILL_AT": kill})
        runs += 1
        if 1 < k < len(steps):
            nt += 1
        tags = dict(scenario=scenario, op=op, partial=bool(m >= 0))
        if r.returncode not in (137,) and k <= len(steps):
            # the run took another path than the recording (non-deterministic step list) - still judge the state
            pass
        state = _settings_state(home)
        where = "killed at step %d (%s%s) of scenario %s %s" % (k, op, "" if m < 0 else ", after %d bytes" % m, scenario, {kk: vv for kk, vv in params.items()})
        if isinstance(state, tuple) and state[0] == "bad":
            raise Mismatch("%s: settings.json on disk is %s" % (where, state[1]), observed="broken_file", **tags)
        # a fresh, un-shimmed start must succeed and see every default key
        r2 = _run(START_SNIPPET, home, shim=False)
        if r2.returncode != 0:
            raise Mismatch("%s: the next evo start fails: %s" % (where, r2.stderr.decode().strip().splitlines()[-1][:200] if r2.stderr else r2.returncode),
                           observed="next_start_fails", **tags)
        keys_line = [ln for ln in r2.stdout.decode().splitlines() if ln.startswith("KEYS=")]
        loaded = json.loads(keys_line[0][5:])
        missing = [kk for kk in defaults if kk not in loaded]
        if missing:
            raise Mismatch("%s: the next start does not see default keys %s" % (where, missing[:5]), observed="keys_missing", **tags)
        for kk, vv in user.items():
            if targets == "all" or kk in targets:
                continue
            if loaded.get(kk) != vv:
                raise Mismatch("%s: user value %s = %r lost (now %r) although the operation does not change it" % (where, kk, vv, loaded.get(kk)),
                               observed="user_value_lost", **tags)
        shutil.rmtree(home, ignore_errors=True)
    shutil.rmtree(base, ignore_errors=True)
    return runs, nt, len(steps)


def sub_crash(case):
    runs, nt, nsteps = crash_case(case)
    return "%s/%d_points" % (case["scenario"], runs)


# ---- schedules ------------------------------------------------------------------------------------

class Proc(object):
    def __init__(self, base, name, home, code):
        self.name = name
        self.out_path = os.path.join(base, name + ".out")
        self.in_path = os.path.join(base, name + ".in")
        os.mkfifo(self.out_path)
        os.mkfifo(self.in_path)
        self.p = subprocess.Popen([PY, "-B", "-s", "-c", code], env=_env(home, {"VF_GATE_OUT": self.out_path, "VF_GATE_IN": self.in_path}), cwd=home,
                                  stdout=subprocess.PIPE, stderr=subprocess.PIPE)
        self.rd = open(self.out_path, "r")
        self.wr = open(self.in_path, "w")
        self.pending = None
        self.done = False
        self.steps = 0
        self.advance()

    def advance(self):
        """wait for the next announced step (or process exit)"""
        line = self.rd.readline()
        if not line:
            self.done = True
            self.pending = None
        else:
            self.pending = line.strip()

    def release(self):
        self.wr.write("go\n")
        self.wr.flush()
        self.steps += 1
        self.advance()

    def finish(self):
        try:
            self.wr.close()
        except Exception:
            pass
        out, err = self.p.communicate(timeout=60)
        self.rd.close()
        return self.p.returncode, out.decode(), err.decode()


def run_schedule(case):
    """case: {'nproc': 2|3, 'switch': [n1, n2, ...]}: run process 0 for n1 steps, next process for n2 steps, ... then each to completion"""
    base = tempfile.mkdtemp(prefix="c19s_", dir=os.getcwd())
    home = os.path.join(base, "home")
    os.makedirs(home)
    nproc = int(case.get("nproc", 2))
    procs = [Proc(base, "p%d" % i, home, START_SNIPPET) for i in range(nproc)]
    trace = []

    def check_file(when):
        state = _settings_state(home)
        if isinstance(state, tuple) and state[0] == "bad":
            raise Mismatch("schedule %s: at %s the settings file is %s (trace %s)" % (case["switch"], when, state[1], trace[-6:]),
                           observed="broken_file_visible", kind="schedule")
    try:
        cur = 0
        preempt = 0
        for n in case["switch"]:
            p = procs[cur]
            k = 0
            while k < n and not p.done:
                trace.append("%s:%s" % (p.name, p.pending.split(" ")[1] if p.pending else "?"))
                p.release()
                check_file("%s step %d" % (p.name, p.steps))
                k += 1
            if not p.done:
                preempt += 1
            cur = (cur + 1) % nproc
        # run everything to completion, current first
        order = [(cur + i) % nproc for i in range(nproc)]
        for i in order:
            p = procs[i]
            while not p.done:
                trace.append("%s:%s" % (p.name, p.pending.split(" ")[1] if p.pending else "?"))
                p.release()
                check_file("%s step %d" % (p.name, p.steps))
        results = [p.finish() for p in procs]
    finally:
        for p in procs:
            if p.p.poll() is None:
                p.p.kill()
    defaults = _defaults()
    for i, (rc, out, err) in enumerate(results):
        if rc != 0:
            last = err.strip().splitlines()[-1][:200] if err.strip() else str(rc)
            exc = last.split(":")[0].split(".")[-1]
            raise Mismatch("schedule %s: process %d of %d concurrently starting evo processes fails: %s (trace %s)" % (case["switch"], i, nproc, last, trace),
                           observed="process_fails", kind="schedule", exc=exc)
        keys_line = [ln for ln in out.splitlines() if ln.startswith("KEYS=")]
        loaded = json.loads(keys_line[0][5:]) if keys_line else {}
        missing = [k for k in defaults if k not in loaded]
        if missing:
            raise Mismatch("schedule %s: process %d does not see default keys %s" % (case["switch"], i, missing[:4]), observed="keys_missing", kind="schedule")
    state = _settings_state(home)
    if state == "absent" or state[0] != "ok":
        raise Mismatch("schedule %s: final settings file is %s" % (case["switch"], state), observed="broken_file", kind="schedule")
    shutil.rmtree(base, ignore_errors=True)
    return preempt


def sub_schedule(case):
    pre = run_schedule(case)
    return "preempt%d" % min(pre, 3)


def _all_schedules(tier):
    S = 20
    yield {"nproc": 2, "switch": []}
    for i in range(1, S + 1):
        yield {"nproc": 2, "switch": [i]}
    for i in range(1, S + 1):
        for j in range(1, S + 1):
            yield {"nproc": 2, "switch": [i, j]}
    if tier == "thorough":
        for i in range(1, S + 1):
            for j in range(1, S + 1):
                for k in range(1, S + 1):
                    yield {"nproc": 2, "switch": [i, j, k]}


CRASH = None
SCHED = None


def custom_crash(ctx):
    """fixed representative instances of every scenario: all crash points (exhaustive per instance)"""
    from vf.runner import execute_case
    rep = Report()
    cases = list(_fixed_crash_cases(ctx["tier"]))
    n_eval = n_nt = 0
    sample = None
    for idx, case in enumerate(cases):
        if idx % ctx["nshards"] != ctx["shard"]:
            continue
        try:
            runs, nt, nsteps = crash_case(dict(case))
            n_eval += runs
            n_nt += nt
            sample = sample or dict(case, steps=nsteps, crash_runs=runs)
            rep.classes["crash_points>" + case["scenario"]] = rep.classes.get("crash_points>" + case["scenario"], 0) + runs
        except Mismatch as m:
            from vf import findings
            kf = findings.match(PROPERTY, "crash", m.tags)
            if kf:
                rep.known[kf] = rep.known.get(kf, 0) + 1
                continue
            rep.violations.append({"sub": "crash", "case": case, "message": m.msg, "tags": m.tags})
    rep.count_many("crash_points", n_eval, n_nt, None, sample)
    rep.exhaustive["crash_points"] = not rep.violations
    return rep


def _fixed_crash_cases(tier):
    user = {"plot_split": True, "plot_figsize": [4, 3], "table_export_format": "excel"}
    yield {"scenario": "first_start", "params": {}}
    yield {"scenario": "upgrade", "params": {"user": user, "removed": ["plot_3d_zoom", "save_traj_in_zip"], "old_version": "v1.0.0"}}
    yield {"scenario": "reset_all", "params": {"user": user}}
    yield {"scenario": "reset_keys", "params": {"user": user, "keys": ["plot_split", "plot_backend"]}}
    yield {"scenario": "set", "params": {"user": user, "tokens": ["plot_export_format", "png", "plot_usetex", "plot_figsize", "6", "5"]}}
    yield {"scenario": "merge", "params": {"user": user, "other": {"plot_linewidth": 2.5, "plot_split": False}, "soft": False}}
    yield {"scenario": "merge", "params": {"user": user, "other": {"plot_linewidth": 2.5}, "soft": True}}
    yield {"scenario": "set", "params": {"user": user, "tokens": ["plot_linewidth", "3", "plot_split"], "explicit_c": True}}
    yield {"scenario": "upgrade", "params": {"user": user, "removed": ["plot_3d_zoom", "save_traj_in_zip"], "old_version": "v1.9.0",
                                             "obsolete": ["plot_old_a", "plot_old_b", "legacy_c"]}}
    if tier == "thorough":
        yield {"scenario": "merge", "params": {"user": user, "other": {"plot_linewidth": 2.5}, "soft": False, "explicit_c": True}}
        yield {"scenario": "upgrade", "params": {"user": {}, "removed": [], "old_version": ""}}
        yield {"scenario": "set", "params": {"user": {}, "tokens": ["save_traj_in_zip"]}}


def custom_schedules(ctx):
    from vf.runner import execute_case
    rep = Report()
    n_eval = n_nt = 0
    sample = None
    for idx, case in enumerate(_all_schedules(ctx["tier"])):
        if idx % ctx["nshards"] != ctx["shard"]:
            continue
        inner = Report()
        v = execute_case(PROPERTY, SCHED, dict(case), inner, counting=True)
        for kf, c in inner.known.items():
            rep.known[kf] = rep.known.get(kf, 0) + c
        for k, c in inner.classes.items():
            rep.classes["schedules>" + k] = rep.classes.get("schedules>" + k, 0) + c
        n_eval += 1
        n_nt += 1 if case["switch"] else 0
        if sample is None and len(case["switch"]) == 2:
            sample = case
        if v is not None:
            rep.violations.append(v)
            break
    rep.count_many("schedules", n_eval, n_nt, None, sample)
    rep.exhaustive["schedules"] = not rep.violations
    return rep


# ---- strategies -------------------------------------------------------------------------------------

_KEYS = None


def _keys():
    global _KEYS
    if _KEYS is None:
        _KEYS = sorted(_defaults().keys())
    return _KEYS


st_user = st.dictionaries(st.sampled_from(["plot_split", "plot_usetex", "plot_linewidth", "table_export_format", "plot_figsize", "save_traj_in_zip"]),
                          st.sampled_from([True, 2.25, "excel", [3, 4]]), max_size=3).map(
    lambda d: {k: v for k, v in d.items() if type(v) is type(_defaults()[k]) or (isinstance(v, float) and isinstance(_defaults()[k], float))})
st_crash = st.one_of(
    st.fixed_dictionaries({"scenario": st.just("first_start"), "params": st.just({})}),
    st.fixed_dictionaries({"scenario": st.just("upgrade"), "params": st.fixed_dictionaries({
        "user": st_user, "removed": st.lists(st.sampled_from(["plot_3d_zoom", "save_traj_in_zip", "plot_backend", "tf_cache_max_time"]), max_size=3, unique=True),
        "old_version": st.sampled_from(["v1.0.0", "v1.30.5", "", "v1.9.0"]),
        "obsolete": st.lists(st.sampled_from(["plot_old_a", "plot_old_b", "legacy_c", "zz_d"]), max_size=4, unique=True)})}),
    st.fixed_dictionaries({"scenario": st.just("reset_all"), "params": st.fixed_dictionaries({"user": st_user})}),
    st.fixed_dictionaries({"scenario": st.just("reset_keys"), "params": st.fixed_dictionaries({
        "user": st_user, "keys": st.lists(st.sampled_from(["plot_split", "plot_backend", "plot_linewidth", "table_export_format"]), min_size=1, max_size=3, unique=True)})}),
    st.fixed_dictionaries({"scenario": st.just("set"), "params": st.fixed_dictionaries({
        "user": st_user, "tokens": st.lists(st.sampled_from(["plot_export_format", "png", "plot_usetex", "plot_figsize", "6", "5", "true", "plot_linewidth", "0.5",
                                                             "plot_statistics", "rmse", "none"]), min_size=1, max_size=5),
        "explicit_c": st.booleans()})}),
    st.fixed_dictionaries({"scenario": st.just("merge"), "params": st.fixed_dictionaries({
        "user": st_user, "other": st.dictionaries(st.sampled_from(["plot_linewidth", "plot_split", "plot_fontscale"]), st.sampled_from([2.5, False, 1.25]), min_size=1, max_size=2),
        "soft": st.booleans(), "explicit_c": st.booleans()})}),
)
st_sched = st.fixed_dictionaries({"nproc": st.sampled_from([2, 2, 3]), "switch": st.lists(st.integers(1, 20), min_size=1, max_size=6)})

CRASH = Sub("crash", sub_crash, st_crash, 10, 160, nontrivial=lambda c: True, shards_quick=2)
SCHED = Sub("schedule", sub_schedule, st_sched, 24, 1500, nontrivial=lambda c: True, shards_quick=6)
SUBS = [
    CRASH, SCHED,
    Sub("crash_points", kind="custom", custom=custom_crash, n_quick=1, n_thorough=1, shards_quick=9, shards_thorough=12, exhaustive_tiers=("quick", "thorough")),
    Sub("schedules", kind="custom", custom=custom_schedules, n_quick=1, n_thorough=1, shards_quick=16, shards_thorough=16, exhaustive_tiers=("quick", "thorough")),
]
