"""C07 — Readers/writers follow the published file conventions; malformed files rejected."""
import io
import json
import math
import os
import pathlib
import tempfile

import numpy as np
from hypothesis import strategies as st

from vf import gen, refmodel as rm
from vf.core import Mismatch, Sub

from evo.core.trajectory import PosePath3D, PoseTrajectory3D
from evo.tools import file_interface
from evo.tools.file_interface import FileInterfaceException

PROPERTY = "C07"
RULE = ("grammar-based Hypothesis files: rows of drawn numbers rendered in any float spelling (repr, %.18e, %g-style, leading +, "
        ".5, 5., 1E-3, integer literals), '#' comment lines anywhere, UTF-8 BOM (path variant), LF/CRLF, with/without final "
        "newline, for TUM, KITTI, EuRoC (8 or 17 columns, ns stamps) and transform files (.npy, savetxt text, JSON with/without "
        "scale, SE(3)/Sim(3)); malformed files: one defect class injected at a drawn row/column; files written by evo parsed by "
        "the strict reference parser. Non-trivial = well-formed with a comment/BOM/CRLF/non-repr spelling or >= 2 rows, or "
        "malformed with the defect outside the first row; distinct by SHA-1"
        ' Round-3 addition: invalid transform files also handed to evo_traj --transform_left/right (+invert, +propagate).')
ASSUMPTIONS = ["tokens Python's float() accepts beyond the decimal grammar (nan, inf, 1_0, non-ASCII digits), CSV quoting and "
               "bare carriage returns are GREY: neither acceptance nor rejection is judged",
               "EuRoC stamps: within 2 ulp of ns/1e9"]

SPELL = ["repr", "e18", "g17", "plus", "int", "dot", "upper"]


def spell(v, how):
    v = float(v)
    if how == "repr":
        return repr(v)
    if how == "e18":
        return "%.18e" % v
    if how == "g17":
        return "%.17g" % v
    if how == "plus":
        s = repr(v)
        return s if s.startswith("-") else "+" + s
    if how == "int":
        if v == int(v) and abs(v) < 1e15:
            return str(int(v)) if not (v == 0 and math.copysign(1, v) < 0) else "-0"
        return repr(v)
    if how == "dot":
        s = repr(v)
        if "e" in s or "E" in s:
            return s
        if s.startswith("0."):
            return s[1:]
        if s.startswith("-0."):
            return "-" + s[2:]
        if s.endswith(".0"):
            return s[:-1]
        return s
    if how == "upper":
        return ("%.17e" % v).upper()
    raise ValueError(how)


def render(rows_tokens, delim, case):
    """rows of tokens -> text with comments, line endings, final newline"""
    lines = [delim.join(r) for r in rows_tokens]
    out = []
    comments = case["comments"]
    for i, ln in enumerate(lines):
        if comments[i % len(comments)]:
            out.append("# comment %d with 1 2 3 numbers" % i)
        out.append(ln)
    if comments[len(lines) % len(comments)] and case["trailing_comment"]:
        out.append("#end")
    nl = "\r\n" if case["crlf"] else "\n"
    text = nl.join(out)
    if case["final_newline"]:
        text += nl
    return text


def feed(text, case, suffix):
    """returns the argument to hand to a reader: path (str / pathlib) or handle"""
    via = case["via"]
    if via == "handle":
        return io.StringIO(text)
    d = tempfile.mkdtemp(prefix="c07_", dir=os.getcwd())
    p = os.path.join(d, "f" + suffix)
    data = text.encode("utf-8")
    if case["bom"]:
        data = b"\xef\xbb\xbf" + data
    with open(p, "wb") as f:
        f.write(data)
    return p if via == "str" else pathlib.Path(p)


def tokens_of(vals, case, k0=0):
    sp = case["spell"]
    return [spell(v, sp[(k0 + i) % len(sp)]) for i, v in enumerate(vals)]


def bits_equal(a, b):
    a = np.ascontiguousarray(np.asarray(a, dtype=np.float64))
    b = np.ascontiguousarray(np.asarray(b, dtype=np.float64))
    return a.shape == b.shape and a.tobytes() == b.tobytes()


def _numbers(case):
    n = len(case["P"])
    P = np.asarray(case["P"], dtype=float).reshape(n, 3) * float(case["mag"])
    Q = np.array([gen.rot_quat(r) for r in (case["rots"] * n)[:n]])
    T = gen.stamps({"t0": case["t0"], "dts": (case["dts"] * n)[: n - 1]})
    return n, P, Q, T


def _expect_rows(rows_tokens):
    return np.array([[float(t) for t in r] for r in rows_tokens])


def _check_traj(obj, T, P, Q_wxyz, what, t_exact=True):
    if not isinstance(obj, PoseTrajectory3D):
        raise Mismatch("%s reader returned %s" % (what, type(obj).__name__), observed="type", fmt=what)
    if obj.num_poses != len(P):
        raise Mismatch("%s: %d rows loaded as %d poses" % (what, len(P), obj.num_poses), observed="count", fmt=what)
    if t_exact:
        if not bits_equal(obj.timestamps, T):
            raise Mismatch("%s: timestamps are not the numbers in the file: %r vs %r" % (what, np.asarray(obj.timestamps)[:3].tolist(), np.asarray(T)[:3].tolist()),
                           observed="timestamps", fmt=what)
    if not bits_equal(obj.positions_xyz, P):
        raise Mismatch("%s: positions are not the numbers in the file (right slots)" % what, observed="positions", fmt=what)
    if not bits_equal(obj.orientations_quat_wxyz, Q_wxyz):
        raise Mismatch("%s: quaternions are not the file's numbers in (w,x,y,z) slots: got %s expected %s" % (
            what, np.asarray(obj.orientations_quat_wxyz)[0].tolist(), np.asarray(Q_wxyz)[0].tolist()), observed="quaternion_slots", fmt=what)
    for k, M in enumerate(obj.poses_se3):
        R = rm.quat_to_R(Q_wxyz[k])
        if float(np.abs(np.asarray(M)[:3, :3] - R).max()) > 1e-12 or not bits_equal(np.asarray(M)[:3, 3], P[k]):
            raise Mismatch("%s: pose matrix %d does not follow the (w,x,y,z) quaternion convention" % (what, k), observed="matrix_convention", fmt=what)


# ---- well-formed -----------------------------------------------------------------------------

def sub_tum_ok(case):
    n, P, Q, T = _numbers(case)
    rows = [tokens_of([T[i], P[i][0], P[i][1], P[i][2], Q[i][1], Q[i][2], Q[i][3], Q[i][0]], case, i) for i in range(n)]
    text = render(rows, " ", case)
    E = _expect_rows(rows)
    obj = file_interface.read_tum_trajectory_file(feed(text, case, ".txt"))
    _check_traj(obj, E[:, 0], E[:, 1:4], np.column_stack([E[:, 7], E[:, 4], E[:, 5], E[:, 6]]), "TUM")
    # reference parser agrees with itself on this text (sanity of the oracle)
    rt, rp, rq = rm.parse_tum(text)
    if not (bits_equal(rt, E[:, 0]) and bits_equal(rp, E[:, 1:4])):
        raise AssertionError("reference parser disagrees with the generator")
    return "tum_ok/" + case["via"]


def sub_kitti_ok(case):
    n, P, Q, T = _numbers(case)
    poses = rm.poses_from(P, Q)
    rows = [tokens_of(np.asarray(M)[:3, :].reshape(-1), case, i) for i, M in enumerate(poses)]
    text = render(rows, " ", case)
    E = _expect_rows(rows)
    obj = file_interface.read_kitti_poses_file(feed(text, case, ".txt"))
    if type(obj) is not PosePath3D or obj.num_poses != n:
        raise Mismatch("KITTI: %d rows loaded as %s with %d poses" % (n, type(obj).__name__, obj.num_poses), observed="count", fmt="KITTI")
    for k, M in enumerate(obj.poses_se3):
        M = np.asarray(M)
        if M.shape != (4, 4) or not bits_equal(M[:3, :], E[k].reshape(3, 4)) or not np.array_equal(M[3], [0.0, 0.0, 0.0, 1.0]):
            raise Mismatch("KITTI: pose %d is not the row-major 3x4 block of the file: %s" % (k, M.tolist()), observed="matrix_slots", fmt="KITTI")
    if not bits_equal(obj.positions_xyz, E[:, [3, 7, 11]]):
        raise Mismatch("KITTI: positions are not columns 4, 8, 12", observed="positions", fmt="KITTI")
    return "kitti_ok/" + case["via"]


def sub_euroc_ok(case):
    n, P, Q, T = _numbers(case)
    ns = [int(round(float(t) * 1e9)) for t in T]
    for i in range(1, n):
        if ns[i] <= ns[i - 1]:
            ns[i] = ns[i - 1] + 1
    extra = 9 if case["euroc17"] else 0
    rows = []
    for i in range(n):
        toks = [str(ns[i])] + tokens_of([P[i][0], P[i][1], P[i][2], Q[i][0], Q[i][1], Q[i][2], Q[i][3]], case, i)
        toks += tokens_of([0.01 * (i + j) for j in range(extra)], case, i)
        rows.append(toks)
    text = render(rows, ",", case)
    if case["euroc_header"]:
        text = "#timestamp [ns],p_RS_R_x [m],p_RS_R_y [m],p_RS_R_z [m],q_RS_w [],q_RS_x [],q_RS_y [],q_RS_z []" + ("\r\n" if case["crlf"] else "\n") + text
    E = _expect_rows([r[1:8] for r in rows])
    obj = file_interface.read_euroc_csv_trajectory(feed(text, case, ".csv"))
    _check_traj(obj, None, E[:, 0:3], E[:, 3:7], "EuRoC", t_exact=False)
    ts = np.asarray(obj.timestamps)
    for k in range(n):
        exact = ns[k] / 1e9  # correctly rounded quotient of the exact integer
        if abs(float(ts[k]) - exact) > 2 * np.spacing(exact):
            raise Mismatch("EuRoC: stamp %d ns loaded as %r s" % (ns[k], float(ts[k])), observed="timestamps", fmt="EuRoC")
    return "euroc_ok/" + case["via"]


def sub_rewrite_history(case):
    """the same path read several times while its content changes (with / without BOM, other numbers, rewritten by evo)"""
    d = tempfile.mkdtemp(prefix="c07h_", dir=os.getcwd())
    p = os.path.join(d, "traj.txt")
    arg = p if case["via"] != "pathlib" else pathlib.Path(p)
    for k, step in enumerate(case["steps"]):
        n, P, Q, T = _numbers(step)
        if step["writer"] == "evo":
            obj = PoseTrajectory3D(positions_xyz=P.copy(), orientations_quat_wxyz=Q.copy(), timestamps=T.copy())
            file_interface.write_tum_trajectory_file(arg, obj)
            E_t, E_p, E_q = T, P, Q
        else:
            rows = [tokens_of([T[i], P[i][0], P[i][1], P[i][2], Q[i][1], Q[i][2], Q[i][3], Q[i][0]], step, i) for i in range(n)]
            text = render(rows, " ", step)
            with open(p, "wb") as f:
                f.write((b"\xef\xbb\xbf" if step["bom"] else b"") + text.encode("utf-8"))
            E = _expect_rows(rows)
            E_t, E_p, E_q = E[:, 0], E[:, 1:4], np.column_stack([E[:, 7], E[:, 4], E[:, 5], E[:, 6]])
        try:
            obj = file_interface.read_tum_trajectory_file(arg)
        except FileInterfaceException as e:
            raise Mismatch("read nr. %d of the same path: a well-formed file (BOM=%s, written by %s) was rejected: %s" % (k + 1, step["bom"], step["writer"], e),
                           observed="history_rejected", fmt="TUM")
        _check_traj(obj, E_t, E_p, E_q, "TUM (read nr. %d of the same path)" % (k + 1))
    return "rewrite/" + "".join("B" if s_["bom"] and s_["writer"] != "evo" else ("e" if s_["writer"] == "evo" else "p") for s_ in case["steps"])


# ---- files written by evo, read by the reference parser ------------------------------------------

def sub_writers(case):
    n, P, Q, T = _numbers(case)
    if case["mode"] == "pq":
        obj = PoseTrajectory3D(positions_xyz=P.copy(), orientations_quat_wxyz=Q.copy(), timestamps=T.copy())
    else:
        obj = PoseTrajectory3D(poses_se3=rm.poses_from(P, Q), timestamps=T.copy())
    h = io.StringIO()
    file_interface.write_tum_trajectory_file(h, obj)
    text = h.getvalue()
    try:
        rt, rp, rq = rm.parse_tum(text)
    except rm.Malformed as e:
        raise Mismatch("TUM file written by evo is not well-formed: %s\n%s" % (e, text[:300]), observed="writer_malformed", fmt="TUM")
    if not bits_equal(rt, T) or not bits_equal(rp, P):
        raise Mismatch("TUM file written by evo: independent parser reads other stamps/positions", observed="writer_values", fmt="TUM")
    Qexp = Q if case["mode"] == "pq" else np.asarray(obj.orientations_quat_wxyz)
    if not bits_equal(rq, Qexp):
        raise Mismatch("TUM file written by evo: quaternion columns are not qx qy qz qw", observed="writer_slots", fmt="TUM")
    for k in range(n):
        if float(np.abs(rm.quat_to_R(rq[k]) - rm.quat_to_R(Q[k])).max()) > 1e-12:
            raise Mismatch("TUM file written by evo describes another orientation for pose %d" % k, observed="writer_values", fmt="TUM")
    h = io.StringIO()
    file_interface.write_kitti_poses_file(h, obj)
    try:
        poses = rm.parse_kitti(h.getvalue())
    except rm.Malformed as e:
        raise Mismatch("KITTI file written by evo is not well-formed: %s" % e, observed="writer_malformed", fmt="KITTI")
    ref = rm.poses_from(P, Q)
    for k in range(n):
        if not bits_equal(poses[k][:3, 3], P[k]) or float(np.abs(poses[k][:3, :3] - ref[k][:3, :3]).max()) > 1e-12:
            raise Mismatch("KITTI file written by evo: pose %d differs when read row-major" % k, observed="writer_values", fmt="KITTI")
    return "writers/" + case["mode"]


# ---- malformed -----------------------------------------------------------------------------------

BAD_TOKENS = ["abc", "1.2.3", "--1", "1,5", "", "1e", "0x10", "1x", "e5", "1.0f", "NaNx", "1;2", "1/2", "+-1", "1.0.", "1#"]


def _inject(rows, case, fmt_cols):
    """returns (rows_tokens or raw lines, description) with one defect"""
    d = case["defect"]
    kind = d["kind"]
    n = len(rows)
    r = d["row"] % n
    c = d["col"] % len(rows[r])
    rows = [list(x) for x in rows]
    lines = None
    if kind == "few":
        k = 1 + d["k"] % 3
        rows[r] = rows[r][: max(1, len(rows[r]) - k)]
    elif kind == "many":
        rows[r] = rows[r] + ["1.0"] * (1 + d["k"] % 3)
    elif kind == "few_all":
        rows = [x[:-1] for x in rows]
    elif kind == "many_all":
        rows = [x + ["0.5"] for x in rows]
    elif kind == "token":
        bad = BAD_TOKENS[d["k"] % len(BAD_TOKENS)]
        if fmt_cols == "," and bad == "1,5":
            bad = "1;5"
        rows[r][c] = bad
    elif kind == "trailing":
        rows[r] = rows[r] + [""]
    elif kind == "trailing_all":
        rows = [x + [""] for x in rows]
    elif kind == "blank":
        rows.insert(r, [""] if d["k"] % 2 else [])
        rows[r] = [] if not rows[r] or rows[r] == [""] and d["k"] % 2 == 0 else rows[r]
    elif kind == "blank_ws":
        rows.insert(r, ["", ""] if fmt_cols == " " else [" "])
    elif kind == "empty":
        rows = []
    return rows, (kind, r)


def _malformed(case, reader, rows, delim, what, suffix):
    rows, (kind, r) = _inject(rows, case, delim)
    c = dict(case)
    if kind in ("blank", "blank_ws"):
        c["final_newline"] = True
    text = render(rows, delim, c) if rows else ("# only a comment\n" if case["comments"][0] else "")
    if kind == "empty" and case["via"] != "handle" and case["bom"] and not text:
        text = ""
    arg = feed(text, case, suffix)
    try:
        obj = reader(arg)
    except FileInterfaceException:
        return "%s_bad/%s" % (what, kind)
    n = getattr(obj, "num_poses", None)
    raise Mismatch("%s file with defect %r in row %d was loaded (%s poses) instead of being rejected; text:\n%s" % (what, kind, r, n, text[:400]),
                   observed="malformed_accepted", fmt=what, defect=kind)


def sub_tum_bad(case):
    n, P, Q, T = _numbers(case)
    rows = [tokens_of([T[i], P[i][0], P[i][1], P[i][2], Q[i][1], Q[i][2], Q[i][3], Q[i][0]], case, i) for i in range(n)]
    return _malformed(case, file_interface.read_tum_trajectory_file, rows, " ", "TUM", ".txt")


def sub_kitti_bad(case):
    n, P, Q, T = _numbers(case)
    rows = [tokens_of(np.asarray(M)[:3, :].reshape(-1), case, i) for i, M in enumerate(rm.poses_from(P, Q))]
    return _malformed(case, file_interface.read_kitti_poses_file, rows, " ", "KITTI", ".txt")


def sub_euroc_bad(case):
    n, P, Q, T = _numbers(case)
    rows = [[str(int(T[i] * 1e9))] + tokens_of([P[i][0], P[i][1], P[i][2], Q[i][0], Q[i][1], Q[i][2], Q[i][3]], case, i) for i in range(n)]
    d = case["defect"]
    if d["kind"] in ("many", "many_all"):
        # more than 8 columns is allowed by the EuRoC convention ("...") when every row has them; only ragged rows are defects
        if d["kind"] == "many_all" or n == 1:
            return "euroc_bad/na"
    return _malformed(case, file_interface.read_euroc_csv_trajectory, rows, ",", "EuRoC", ".csv")


# ---- transforms ----------------------------------------------------------------------------------

def _transform_file(M, how, case, js=None):
    d = tempfile.mkdtemp(prefix="c07t_", dir=os.getcwd())
    if how == "npy":
        p = os.path.join(d, "t.npy")
        np.save(p, M)
    elif how == "txt":
        p = os.path.join(d, "t.txt")
        with open(p, "w") as f:
            for row in np.atleast_2d(M):
                f.write(" ".join(tokens_of(row, case)) + "\n")
    else:
        p = os.path.join(d, "t.json")
        with open(p, "w") as f:
            f.write((" \n" if case["crlf"] else "") + json.dumps(js))
    return p if case["via"] != "pathlib" else pathlib.Path(p)


def sub_transform_ok(case):
    R = gen.rot_matrix(case["rot"])
    q = gen.rot_quat(case["rot"])
    t = np.asarray(case["t"], dtype=float) * float(case["mag"])
    s = float(case["s"]) if case["sim3"] else 1.0
    how = case["how"]
    if how == "json":
        js = {"x": float(t[0]), "y": float(t[1]), "z": float(t[2]), "qx": float(q[1]), "qy": float(q[2]), "qz": float(q[3]), "qw": float(q[0])}
        if case["sim3"] or case["explicit_scale"]:
            js["scale"] = s
        M = rm.sim3(rm.quat_to_R(q), t, s)
        p = _transform_file(None, "json", case, js)
        tol = 1e-12 * max(1.0, s)
    else:
        M = rm.sim3(R, t, s)
        p = _transform_file(M, how, case)
        tol = 0.0
    got = np.asarray(file_interface.load_transform(p), dtype=float)
    if got.shape != (4, 4):
        raise Mismatch("load_transform returned shape %s" % (got.shape,), observed="shape", fmt="transform")
    exp = M if how != "txt" else np.array([[float(x) for x in tokens_of(row, case)] for row in M])
    if float(np.abs(got - exp).max()) > tol or not bits_equal(got[:3, 3], exp[:3, 3]):
        raise Mismatch("transform (%s) loaded as\n%s\nexpected\n%s" % (how, got.tolist(), exp.tolist()), observed="transform_values", fmt="transform")
    return "transform_ok/%s/%s" % (how, "sim3" if case["sim3"] else "se3")


def _transform_bad_cli(p, kind, how, case):
    """the same invalid file handed to evo_traj --transform_left/right: refused with evo's error, nothing exported"""
    from vf import cli
    d = tempfile.mkdtemp(prefix="c07tf_", dir=os.getcwd())
    T = np.arange(4, dtype=float) + 10.0
    P = np.arange(12, dtype=float).reshape(4, 3)
    Q = np.tile([0.0, 0.0, 0.0, 1.0], (4, 1))
    open(os.path.join(d, "t.txt"), "w").write(rm.write_tum(T, P, np.tile([1.0, 0.0, 0.0, 0.0], (4, 1))))
    outd = os.path.join(d, "out")
    os.makedirs(outd)
    flag = ["--transform_left", "--transform_right", "--transform_right"][case["k"] % 3]
    argv = ["tum", os.path.join(d, "t.txt"), flag, str(p), "--save_as_tum", "--no_warnings", "--silent"]
    if case["k"] % 3 == 2:
        argv.append("--propagate_transform")
    if case["k"] % 2:
        argv.append("--invert_transform")
    out = cli.run("traj", argv, cwd=outd)
    if out.exit_code == 0 or os.listdir(outd):
        raise Mismatch("evo_traj %s with an invalid transform file (%s via %s) %s" % (
            " ".join(argv[2:]), kind, how, "exported " + str(sorted(os.listdir(outd))) if os.listdir(outd) else "did not fail"),
            observed="malformed_accepted", fmt="transform_cli", defect=kind)
    if "FileInterfaceException" not in str(out.refused):
        raise Mismatch("evo_traj with an invalid transform file (%s) failed with %s instead of evo's file-format error" % (kind, out.refused),
                       observed="wrong_error", fmt="transform_cli", defect=kind)


def sub_transform_bad(case):
    R = gen.rot_matrix(case["rot"])
    t = np.asarray(case["t"], dtype=float) * float(case["mag"])
    s = float(case["s"]) if case["sim3"] else 1.0
    M = rm.sim3(R, t, s)
    kind = case["bad"]
    how = case["how"] if case["how"] != "json" else "txt"
    js = None
    if kind == "shape34":
        B = M[:3, :]
    elif kind == "shape43":
        B = M[:, :3]
    elif kind == "shape55":
        B = np.eye(5)
    elif kind == "flat16":
        B = M.reshape(-1)
    elif kind == "reflection":
        B = M.copy()
        B[:3, :3] = B[:3, :3] @ np.diag([1.0, 1.0, -1.0])
    elif kind == "sheared":
        B = M.copy()
        B[:3, :3] = B[:3, :3] @ (np.eye(3) + 0.05 * np.array([[0, 1.0, 0], [1.0, 0, 0], [0, 0, 0]]))
    elif kind == "rowscaled":
        B = M.copy()
        B[0, :3] *= 1.1
    elif kind == "bottom":
        B = M.copy()
        B[3, case["k"] % 4] += 0.5
    elif kind in ("json_scale_zero", "json_scale_negative"):
        q = gen.rot_quat(case["rot"])
        js = {"x": 0.5, "y": 1.0, "z": 2.0, "qx": float(q[1]), "qy": float(q[2]), "qz": float(q[3]), "qw": float(q[0]),
              "scale": [0, 0.0, -0.0][case["k"] % 3] if kind == "json_scale_zero" else -abs(s)}
        how = "json"
        B = None
    elif kind == "json_key":
        q = gen.rot_quat(case["rot"])
        js = {"x": 0.0, "y": 1.0, "z": 2.0, "qx": float(q[1]), "qy": float(q[2]), "qz": float(q[3]), "qw": float(q[0])}
        del js[sorted(js)[case["k"] % 7]]
        how = "json"
        B = None
    else:
        raise ValueError(kind)
    p = _transform_file(B, how, case, js)
    try:
        with np.errstate(all="ignore"):
            got = file_interface.load_transform(p)
    except FileInterfaceException:
        if case.get("via_cli"):
            _transform_bad_cli(p, kind, how, case)
            return "transform_bad/%s/evo_traj" % kind
        return "transform_bad/" + kind
    raise Mismatch("invalid transform (%s via %s) was loaded:\n%s" % (kind, how, np.asarray(got).tolist()), observed="malformed_accepted",
                   fmt="transform", defect=kind)


# ---- strategies -----------------------------------------------------------------------------------

vals = st.one_of(gen.unit_f, st.sampled_from([0.0, -0.0, 1.0, -1.0, 0.5, 1 / 3, 1e-3, 123456.789012345678]))
_common = {
    "P": st.lists(st.lists(vals, min_size=3, max_size=3), min_size=1, max_size=12),
    "mag": st.one_of(st.just(1.0), gen.log_uniform(-3, 7)),
    "rots": st.lists(gen.st_rotation, min_size=1, max_size=4),
    "t0": st.sampled_from([0.0, 1.0, 1.5e9 + 0.123456789, 1403636579.763555527]),
    "dts": st.lists(st.one_of(gen.fl(1e-3, 10.0), st.sampled_from([0.005, 0.1, 1.0])), min_size=1, max_size=5),
    "spell": st.lists(st.sampled_from(SPELL), min_size=1, max_size=8),
    "comments": st.lists(st.booleans(), min_size=1, max_size=5), "trailing_comment": st.booleans(),
    "crlf": st.booleans(), "final_newline": st.booleans(), "bom": st.booleans(),
    "via": st.sampled_from(["str", "pathlib", "handle"]),
    "euroc17": st.booleans(), "euroc_header": st.booleans(), "mode": st.sampled_from(["pq", "se3"]),
}
st_ok = st.fixed_dictionaries(_common)
st_defect = st.fixed_dictionaries({
    "kind": st.sampled_from(["few", "many", "few_all", "many_all", "token", "token", "trailing", "trailing_all", "blank", "blank_ws", "empty"]),
    "row": st.integers(0, 30), "col": st.integers(0, 16), "k": st.integers(0, 40)})
st_bad = st.fixed_dictionaries(dict(_common, defect=st_defect))
st_tf = st.fixed_dictionaries({
    "rot": gen.st_rotation, "t": st.lists(gen.unit_f, min_size=3, max_size=3), "mag": gen.log_uniform(-3, 6), "s": gen.log_uniform(-3, 3),
    "sim3": st.booleans(), "explicit_scale": st.booleans(), "how": st.sampled_from(["npy", "txt", "json"]),
    "spell": st.lists(st.sampled_from(["repr", "e18", "g17", "plus"]), min_size=1, max_size=4), "crlf": st.booleans(),
    "via": st.sampled_from(["str", "pathlib"]), "k": st.integers(0, 20), "via_cli": st.sampled_from([False, False, True]),
    "bad": st.sampled_from(["shape34", "shape43", "shape55", "flat16", "reflection", "sheared", "rowscaled", "bottom", "json_key", "json_scale_zero",
                            "json_scale_negative"])})


def _nt_ok(c):
    return len(c["P"]) >= 2 or any(c["comments"]) or c["crlf"] or c["bom"] or any(s != "repr" for s in c["spell"])


def _nt_bad(c):
    return c["defect"]["row"] % len(c["P"]) != 0 or c["defect"]["kind"] in ("few_all", "many_all", "trailing_all", "empty")


SUBS = [
    Sub("tum_ok", sub_tum_ok, st_ok, 900, 40000, nontrivial=_nt_ok),
    Sub("kitti_ok", sub_kitti_ok, st_ok, 500, 20000, nontrivial=_nt_ok),
    Sub("euroc_ok", sub_euroc_ok, st_ok, 500, 20000, nontrivial=_nt_ok),
    Sub("writers", sub_writers, st_ok, 400, 15000, nontrivial=lambda c: True),
    Sub("rewrite_history", sub_rewrite_history, st.fixed_dictionaries({
        "steps": st.lists(st.fixed_dictionaries(dict(_common, writer=st.sampled_from(["plain", "plain", "evo"]))), min_size=2, max_size=4),
        "via": st.sampled_from(["str", "pathlib"])}), 250, 10000, nontrivial=lambda c: True),
    Sub("tum_bad", sub_tum_bad, st_bad, 900, 40000, nontrivial=_nt_bad),
    Sub("kitti_bad", sub_kitti_bad, st_bad, 500, 20000, nontrivial=_nt_bad),
    Sub("euroc_bad", sub_euroc_bad, st_bad, 500, 20000, nontrivial=_nt_bad),
    Sub("transform_ok", sub_transform_ok, st_tf, 500, 20000, nontrivial=lambda c: True),
    Sub("transform_bad", sub_transform_bad, st_tf, 500, 20000, nontrivial=lambda c: True),
]


# ---- byte-level differential fuzzing (atheris / libFuzzer) -------------------------------------------

import binascii
import glob
import shutil
import subprocess
import sys

from vf.core import Report


def sub_fuzz_case(case):
    """replay of one fuzz input (hex) through the differential target"""
    from vf.fuzz import c07_target
    try:
        return c07_target.check_bytes(binascii.unhexlify(case["hex"]))
    except c07_target.Disagreement as dgr:
        raise Mismatch(dgr.msg, **dgr.tags)


FUZZ_CASE = Sub("fuzz_case", sub_fuzz_case, None, 0, 0)


def custom_fuzz(ctx):
    from vf.runner import execute_case, VERIF, REPO
    rep = Report()
    try:
        import atheris  # noqa
    except Exception:
        rep.notes.append("atheris not importable: fuzz sub-check skipped")
        rep.count_many("fuzz_readers", 0, 0, None, {"skipped": "atheris missing"})
        return rep
    runs = 25000 if ctx["tier"] == "quick" else 400000
    work = tempfile.mkdtemp(prefix="c07fz_", dir=os.getcwd())
    corpus = os.path.join(work, "corpus")
    art = os.path.join(work, "art")
    os.makedirs(corpus)
    os.makedirs(art)
    seeds = os.path.join(VERIF, "corpus", "C07", "fuzz")
    use_seeds = (ctx["shard"] % 2 == 0)  # odd shards start from the empty corpus
    cmd = [sys.executable, "-B", "-W", "ignore", "-m", "vf.fuzz.c07_target", "-runs=%d" % runs, "-seed=%d" % (1 + ctx["seed"] % (2 ** 31 - 2)),
           "-artifact_prefix=" + art + "/", "-max_len=768", "-print_final_stats=1",
           "-dict=" + os.path.join(VERIF, "vf", "fuzz", "c07.dict"), corpus] + ([seeds] if use_seeds and os.path.isdir(seeds) else [])
    env = dict(os.environ, PYTHONPATH=os.pathsep.join([REPO, VERIF, os.path.join(VERIF, ".deps")]))
    r = subprocess.run(cmd, cwd=work, env=env, stdout=subprocess.PIPE, stderr=subprocess.STDOUT, text=True)
    done = 0
    for ln in r.stdout.splitlines():
        if ln.startswith("stat::number_of_executed_units:"):
            done = int(ln.split(":")[-1])
        elif ln.startswith("Done ") and " runs" in ln:
            done = max(done, int(ln.split()[1]))
    crashes = sorted(glob.glob(os.path.join(art, "crash-*")))
    # classify what the campaign produced (new corpus entries = inputs with new coverage)
    from vf.fuzz import c07_target
    kinds = {}
    nt = 0
    sample = None
    for f in sorted(glob.glob(os.path.join(corpus, "*")))[:4000]:
        data = open(f, "rb").read()
        try:
            k = c07_target.check_bytes(data)
        except c07_target.Disagreement:
            k = "disagreement"
        kinds[k] = kinds.get(k, 0) + 1
        if k in ("ok", "bad"):
            nt += 1
            if sample is None and len(data) < 200:
                sample = {"hex": binascii.hexlify(data).decode(), "classification": k}
    for f in crashes:
        case = {"hex": binascii.hexlify(open(f, "rb").read()).decode()}
        v = execute_case(PROPERTY, FUZZ_CASE, case, rep, counting=False)
        if v is not None:
            rep.violations.append(v)
            break
        else:
            rep.notes.append("fuzz artifact does not reproduce in-process: %s" % os.path.basename(f))
    if r.returncode != 0 and not crashes:
        rep.harness_errors.append("atheris run failed (exit %d): %s" % (r.returncode, r.stdout[-800:]))
    rep.count_many("fuzz_readers", done, nt, None, sample or {"corpus_entries": sum(kinds.values())})
    for k, c in kinds.items():
        rep.classes["fuzz_readers>new_coverage_inputs:%s" % k] = c
    shutil.rmtree(work, ignore_errors=True)
    return rep


SUBS.append(FUZZ_CASE)
SUBS.append(Sub("fuzz_readers", kind="custom", custom=custom_fuzz, n_quick=1, n_thorough=1, shards_quick=4, shards_thorough=16))


# ---- files written by evo_traj (--save_as_tum / --save_as_kitti, with --ref) read by the independent parser ----------------
from vf.checks import c15 as _c15
SUBS.append(Sub("cli_export", _c15.sub_traj, _c15.make_st_case(
    tf=st.none(), project=st.none(), downsample=st.none(), mf=st.none(), merge=st.just(False), align_mode=st.just("none"), correct_scale=st.just(False),
    sync=st.just(False), toff=st.just(0.0)), 150, 4000, nontrivial=lambda c: c["ref"] is not None, shards_quick=2))
