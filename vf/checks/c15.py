"""C15 — evo_traj applies its options in the documented order and exports the result."""
import json
import math
import os
import tempfile

import numpy as np
from hypothesis import strategies as st

from vf import gen, refmodel as rm, cli, pipeline
from vf.core import Mismatch, Sub, Skip
from vf.pipeline import PLANE_NULL

PROPERTY = "C15"
RULE = ("evo_traj driven in-process on 1-3 generated input files (+ optional reference) in TUM / KITTI / EuRoC form (3-25 tagged "
        "poses) with Hypothesis-drawn combinations of downsample, motion_filter, merge, t_offset, ref, sync, align, correct_scale, "
        "n_to_align, align_origin, transform_left/right (+invert, +propagate) with SE(3)/Sim(3) files in npy/txt/json form, "
        "project_to_plane, save_as_tum/save_as_kitti (only combinations evo documents as valid); the exported files are parsed by "
        "the independent parser and compared with the reference pipeline in the documented order. Non-trivial = >= 2 processing "
        "options active; distinct by SHA-1")
ASSUMPTIONS = ["down-sample / motion-filter selections are taken from evo's own operation on tagged copies and validated with the C11 checkers",
               "alignment is predicted with Horn's method and compared within 1e-7 of the coordinate scale; cases whose fit is ill-conditioned "
               "(singular-value gap ratio < 1e-2) are skipped and counted",
               "after projection only 'rotation about the normal' is required of the orientations"]


class Refuse(Exception):
    pass


class T3(object):
    def __init__(self, T, P, Rs):
        self.T = None if T is None else np.array(T, dtype=float)
        self.P = np.array(P, dtype=float).reshape(-1, 3)
        self.Rs = [np.array(R) for R in Rs]
        self.proj = None
        self.ties = False

    def sel(self, ids):
        out = T3(None if self.T is None else self.T[ids], self.P[ids], [self.Rs[i] for i in ids])
        out.ties = self.ties
        return out

    def poses(self):
        return [rm.se3(R, p) for R, p in zip(self.Rs, self.P)]

    @property
    def n(self):
        return len(self.P)


def gen_traj(spec, t0, base=None):
    """tagged trajectory: generic geometry from a Philox key"""
    rng = gen.bulk_rng(spec["seed"])
    n = int(spec["n"])
    start = int(spec.get("start", 0))
    T = t0 + float(spec["dt"]) * (start + np.arange(n)) + float(spec["phase"])
    if base is None:
        P = np.cumsum(rng.standard_normal((n, 3)) * float(spec["step"]), axis=0)
        still = rng.uniform(size=n) < float(spec["still"])
        for i in range(1, n):
            if still[i]:
                P[i] = P[i - 1]
    else:
        # similarity image of the reference path (sampled at own stamps by index) plus small noise -> alignment well posed
        R0 = rm.quat_to_R(rm.random_unit_quat(rng))
        c = float(spec["scale"])
        idx = np.minimum(start + np.arange(n), base.n - 1)
        P = (c * (R0 @ base.P[idx].T)).T + rng.standard_normal(3) * 2.0 + 1e-3 * rng.standard_normal((n, 3))
    yaw = np.cumsum(rng.choice([0.0, 0.05, 0.4], size=n))
    ax = gen.unit_axis(rng.standard_normal(3))
    Rs = [rm.rodrigues(ax * a) for a in yaw]
    return T3(T, P, Rs)


def write_traj(path, tr, fmt):
    Q = np.array([rm.R_to_quat(R) for R in tr.Rs])
    if fmt == "tum":
        open(path, "w").write(rm.write_tum(tr.T, tr.P, Q))
        return T3(tr.T, tr.P, [rm.quat_to_R(q) for q in Q])
    if fmt == "euroc":
        ns = [int(round(t * 1e9)) for t in tr.T]
        open(path, "w").write(rm.write_euroc(ns, tr.P, Q, extra_cols=9))
        return T3(np.array([float(v) for v in ns]) / 1e9, tr.P, [rm.quat_to_R(q) for q in Q])
    open(path, "w").write(rm.write_kitti(tr.poses()))
    return T3(None, tr.P, tr.Rs)


def write_transform(path_base, M, how, js=None):
    if how == "npy":
        p = path_base + ".npy"
        np.save(p, M)
    elif how == "txt":
        p = path_base + ".txt"
        np.savetxt(p, M)
    else:
        p = path_base + ".json"
        json.dump(js, open(p, "w"))
    return p


def _select_chain(tr, o, fmt):
    ids = list(range(tr.n))
    if o.get("downsample") and tr.n > int(o["downsample"]):
        ids = [ids[i] for i in pipeline.evo_downsample_ids(len(ids), int(o["downsample"]))]
    if o.get("motion_filter"):
        if len(ids) < 2:
            return None
        Q = np.array([rm.R_to_quat(tr.Rs[i]) for i in ids])
        sub = pipeline.evo_motion_ids(tr.P[ids], Q, float(o["motion_filter"][0]), float(o["motion_filter"][1]))
        ids = [ids[i] for i in sub]
    return tr.sel(ids)


def _merge(trs):
    T = np.concatenate([t.T for t in trs])
    P = np.concatenate([t.P for t in trs])
    Rs = [R for t in trs for R in t.Rs]
    order = np.argsort(T, kind="stable")
    out = T3(T[order], P[order], [Rs[i] for i in order])
    out.ties = len(set(T.tolist())) != len(T)
    return out


def _align(tr, ref, o):
    """Umeyama (Horn) / origin alignment of tr to the associated reference ref"""
    if o.get("align") or o.get("correct_scale"):
        nn = int(o.get("n_to_align", -1))
        x = (tr.P if nn == -1 else tr.P[:nn]).T
        y = (ref.P if nn == -1 else ref.P[:nn]).T
        if x.shape != y.shape:
            raise Refuse("point sets of different size")
        used = x.shape[1]
        ws = bool(o.get("correct_scale"))
        sv, detC = rm.covariance_singular_values(x, y)
        sg = 1.0 if detC >= 0 else -1.0
        if used < 3:
            raise Skip("alignment of fewer than 3 pairs")
        if (sv[1] + sg * sv[2]) / max(sv[0], 1e-300) < 1e-2:
            raise Skip("ill-conditioned alignment")
        R, t, c, gap = rm.horn(x, y, ws)
        if o.get("align"):
            tr = T3(tr.T, (c * (R @ tr.P.T)).T + t, [R @ Ri for Ri in tr.Rs])
        else:
            tr = T3(tr.T, c * tr.P, tr.Rs)
    if o.get("align_origin"):
        M = rm.se3(ref.Rs[0], ref.P[0]) @ rm.se3_inv(rm.se3(tr.Rs[0], tr.P[0]))
        tr = T3(tr.T, (M[:3, :3] @ tr.P.T).T + M[:3, 3], [M[:3, :3] @ Ri for Ri in tr.Rs])
    return tr


def _transform(tr, M, right, propagate):
    s = float(np.cbrt(np.linalg.det(M[:3, :3])))
    R = M[:3, :3] / s
    t = M[:3, 3]
    if not right:
        return T3(tr.T, (s * (R @ tr.P.T)).T + t, [R @ Ri for Ri in tr.Rs])
    poses = tr.poses()
    Mse3 = rm.se3(R, t)
    if not propagate:
        new = [p @ Mse3 for p in poses]
    else:
        rel = [rm.rel(poses[i], poses[i + 1]) @ Mse3 for i in range(len(poses) - 1)]
        new = [poses[0]]
        for r in rel:
            new.append(new[-1] @ r)
    return T3(tr.T, [p[:3, 3] for p in new], [p[:3, :3] for p in new])


def _project(tr, plane):
    nd = PLANE_NULL[plane]
    P = tr.P.copy()
    P[:, nd] = 0.0
    out = T3(tr.T, P, tr.Rs)
    out.proj = plane
    out.ties = tr.ties
    return out


def _compare(exp, text, kind, what, exact):
    try:
        if kind == "tum":
            T, P, Q = rm.parse_tum(text)
            Rs = [rm.quat_to_R(q) for q in Q]
        else:
            poses = rm.parse_kitti(text)
            T, P, Rs = None, np.array([m[:3, 3] for m in poses]), [m[:3, :3] for m in poses]
    except rm.Malformed as e:
        raise Mismatch("%s: exported file is not well-formed: %s" % (what, e), observed="export_malformed")
    if len(P) != exp.n:
        raise Mismatch("%s: exported %d poses, the documented processing yields %d" % (what, len(P), exp.n), observed="export_count", what=what)
    if kind == "tum":
        if exp.T is None:
            raise Mismatch("%s: TUM export of a path without stamps" % what, observed="export_kind")
        if not np.array_equal(T, exp.T):
            raise Mismatch("%s: exported stamps %s, expected %s" % (what, T[:6].tolist(), exp.T[:6].tolist()), observed="export_stamps", what=what)
    scale = max(float(np.abs(exp.P).max()), 1.0)
    ptol = 0.0 if exact else 1e-7 * scale
    if getattr(exp, "ties", False) and len(P) == exp.n:
        # equal stamps may come in any order: match every expected pose with an unused exported pose of the same stamp
        used = set()
        order = []
        for k in range(exp.n):
            hit = None
            for j in range(len(P)):
                if j in used or (kind == "tum" and T[j] != exp.T[k]):
                    continue
                if float(np.abs(P[j] - exp.P[k]).max()) <= max(ptol, 1e-12 * scale) and (exp.proj or float(np.abs(Rs[j] - exp.Rs[k]).max()) <= 1e-7):
                    hit = j
                    break
            if hit is None:
                raise Mismatch("%s: pose %d of the documented result (stamp %r) has no counterpart in the export" % (what, k, float(exp.T[k])),
                               observed="export_positions", what=what)
            used.add(hit)
            order.append(hit)
        # the export must be time-sorted: the expected stamps read in export order are non-decreasing
        inv = np.argsort(order)
        if np.any(np.diff(exp.T[inv]) < 0):
            raise Mismatch("%s: exported poses are not sorted by time" % what, observed="export_stamps", what=what)
        P, Rs = P[order], [Rs[i] for i in order]
        T = None if T is None else T[order]
    dev = float(np.abs(P - exp.P).max())
    if dev > ptol:
        k = int(np.argmax(np.abs(P - exp.P).max(axis=1)))
        raise Mismatch("%s: exported position %d is %s, documented processing gives %s (deviation %.3e, tol %.1e)" % (
            what, k, P[k].tolist(), exp.P[k].tolist(), dev, ptol), observed="export_positions", what=what)
    for k in range(exp.n):
        if exp.proj:
            ax = np.zeros(3)
            ax[PLANE_NULL[exp.proj]] = 1.0
            if float(np.abs(Rs[k] @ ax - ax).max()) > 1e-9 or rm.orthonormality_defect(Rs[k]) > 1e-8:
                raise Mismatch("%s: exported orientation %d is not a rotation about the %s-plane normal" % (what, k, exp.proj), observed="export_not_projected", what=what)
        else:
            d = float(np.abs(Rs[k] - exp.Rs[k]).max())
            if d > (1e-12 if exact else 1e-7):
                bad = "scaled" if abs(abs(np.linalg.det(Rs[k])) ** (1 / 3) - 1) > 1e-6 else "value"
                raise Mismatch("%s: exported orientation %d deviates from the documented processing by %.3e" % (what, k, d),
                               observed="export_orientation_" + bad, what=what)


def sub_traj(case):
    o = case["opts"]
    fmt = case["fmt"]
    d = tempfile.mkdtemp(prefix="c15_", dir=os.getcwd())
    ind, outd = os.path.join(d, "in"), os.path.join(d, "out")
    os.makedirs(ind)
    os.makedirs(outd)
    t0 = float(case["t0"])
    ext = {"tum": ".txt", "kitti": ".kitti.txt", "euroc": ".csv"}[fmt]
    ref = None
    ref_path = None
    if case["ref"] is not None:
        ref_gen = gen_traj(dict(case["ref"], start=0), t0)
        ref_path = os.path.join(ind, "reference" + ext)
        ref = write_traj(ref_path, ref_gen, fmt)
    trajs = []
    names = []
    for k, spec in enumerate(case["trajs"]):
        if fmt == "kitti" and ref is not None:
            spec = dict(spec, n=case["ref"]["n"])
        tg = gen_traj(spec, t0, base=ref_gen if (case["ref"] is not None and case["like_ref"]) else None)
        p = os.path.join(ind, "traj_%d%s" % (k, ext))
        trajs.append(write_traj(p, tg, fmt))
        names.append(p)
    argv = [fmt] + names
    if ref_path:
        argv += ["--ref", ref_path]
    tf_M = None
    if o.get("transform"):
        tf = o["transform"]
        Rm = gen.rot_matrix(tf["rot"])
        q = gen.rot_quat(tf["rot"])
        tv = np.asarray(tf["t"], dtype=float) * 5.0
        s = float(tf["s"]) if tf["sim3"] else 1.0
        if tf.get("int_npy"):
            # an integer-valued Sim(3) (quarter turns, integer scale and translation) stored with an integer dtype
            Rq = gen.rot_matrix({"quarter": [tf["qk"] % 4, (tf["qk"] // 4) % 4, (tf["qk"] // 16) % 4]})
            si = int(round(s)) if tf["sim3"] else 1
            si = max(si, 1) if not tf["sim3"] else max(si, 2)
            Mi = np.eye(4)
            Mi[:3, :3] = np.round(si * Rq)
            Mi[:3, 3] = np.round(tv)
            tf_M = Mi.copy()
            tpath = os.path.join(ind, "tf.npy")
            np.save(tpath, Mi.astype(np.int64))
        elif tf["how"] == "json":
            js = {"x": float(tv[0]), "y": float(tv[1]), "z": float(tv[2]), "qx": float(q[1]), "qy": float(q[2]), "qz": float(q[3]), "qw": float(q[0])}
            if tf["sim3"]:
                js["scale"] = s
            tf_M = rm.sim3(rm.quat_to_R(q), tv, s)
            tpath = write_transform(os.path.join(ind, "tf"), None, "json", js)
        else:
            tf_M = rm.sim3(Rm, tv, s)
            tpath = write_transform(os.path.join(ind, "tf"), tf_M, tf["how"])
        argv += ["--transform_right" if tf["right"] else "--transform_left", tpath]
        if tf["invert"]:
            argv.append("--invert_transform")
        if tf["propagate"]:
            # documented for --transform_right only ("with --transform_right: ..."): a left transformation stays T*pose
            argv.append("--propagate_transform")
    for key, flag in (("align", "--align"), ("correct_scale", "--correct_scale"), ("align_origin", "--align_origin"), ("sync", "--sync"), ("merge", "--merge")):
        if o.get(key):
            argv.append(flag)
    if o.get("n_to_align", -1) != -1:
        argv += ["--n_to_align", str(o["n_to_align"])]
    if o.get("downsample"):
        argv += ["--downsample", str(o["downsample"])]
    if o.get("motion_filter"):
        argv += ["--motion_filter", repr(float(o["motion_filter"][0])), repr(float(o["motion_filter"][1]))]
    if o.get("t_offset"):
        argv += ["--t_offset", repr(float(o["t_offset"]))]
    if o.get("project"):
        argv += ["--project_to_plane", o["project"]]
    argv += ["--t_max_diff", repr(float(o["t_max_diff"]))]
    argv += ["--save_as_tum"] if case["export"] == "tum" else ["--save_as_kitti"]
    argv += ["--no_warnings", "--silent"]
    out = cli.run("traj", argv, cwd=outd)

    # ---- reference pipeline
    refused = None
    exp = {}
    try:
        cur = []
        for tr in trajs:
            c = _select_chain(tr, o, fmt)
            if c is None:
                refused = "motion filter on < 2 poses"
                break
            cur.append(c)
        ref_cur = None
        if ref is not None and refused is None:
            ref_cur = _select_chain(ref, o, fmt)
            if ref_cur is None:
                refused = "motion filter on < 2 poses"
        if refused is None:
            labels = ["traj_%d" % k for k in range(len(cur))]
            if o.get("merge"):
                cur = [_merge(cur)]
                labels = ["merged_trajectory"]
                if cur[0].ties and any(o.get(k) for k in ("sync", "align", "correct_scale", "align_origin", "transform")) :
                    raise Skip("equal stamps in a merge followed by order-dependent steps")
            if o.get("t_offset"):
                ties = [c.ties for c in cur]
                cur = [T3(c.T + float(o["t_offset"]), c.P, c.Rs) for c in cur]
                for c, tt in zip(cur, ties):
                    c.ties = tt
            synced = (fmt == "kitti" and ref is not None) or any(o.get(k) for k in ("sync", "align", "correct_scale", "align_origin"))
            if synced:
                new = []
                for c in cur:
                    if fmt == "kitti":
                        r_tmp = ref_cur
                    else:
                        pairs = pipeline.expected_pairs(ref_cur.T, c.T, float(o["t_max_diff"]), 0.0)
                        if not pairs:
                            refused = "no matching stamps"
                            break
                        r_tmp = ref_cur.sel([a for a, b in pairs])
                        c = c.sel([b for a, b in pairs])
                    try:
                        c = _align(c, r_tmp, o)
                    except Refuse as e:
                        refused = str(e)
                        break
                    new.append(c)
                cur = new
        if refused is None and tf_M is not None:
            M = tf_M
            if o["transform"]["invert"]:
                M = rm.sim3_inv(M)
            cur = [_transform(c, M, o["transform"]["right"], o["transform"]["right"] and o["transform"]["propagate"]) for c in cur]
        if refused is None and o.get("project"):
            cur = [_project(c, o["project"]) for c in cur]
            if ref_cur is not None:
                ref_cur = _project(ref_cur, o["project"])
        if refused is None:
            for lab, c in zip(labels, cur):
                exp[lab] = c
            if ref_cur is not None:
                exp["reference"] = ref_cur
    except Skip:
        raise
    if out.exit_code != 0:
        if refused is not None:
            return "refused"
        if (o.get("align") or o.get("correct_scale")):
            return "refused_alignment"
        raise Mismatch("evo_traj failed (%s) on a documented option combination %s" % (out.refused, {k: v for k, v in o.items() if v}), observed="cli_failed")
    if refused is not None:
        raise Mismatch("evo_traj succeeded although the documented processing must refuse (%s)" % refused, observed="missing_refusal")
    active = [k for k in ("downsample", "motion_filter", "merge", "t_offset", "sync", "align", "correct_scale", "align_origin", "transform", "project") if o.get(k)]
    exact = not active and ((fmt == "tum" and case["export"] == "tum") or (fmt == "kitti" and case["export"] == "kitti"))
    kind = case["export"]
    suffix = ".tum" if kind == "tum" else ".kitti"
    for lab, c in exp.items():
        stem = lab if lab in ("merged_trajectory",) else (lab + (".kitti" if fmt == "kitti" else ""))
        p = os.path.join(outd, stem + suffix)
        if kind == "tum" and c.T is None:
            continue  # paths without stamps cannot be exported as TUM
        if not os.path.exists(p):
            raise Mismatch("evo_traj did not export %s (files: %s)" % (os.path.basename(p), sorted(os.listdir(outd))), observed="export_missing", what=lab)
        _compare(c, open(p).read(), kind, lab, exact)
    return "%s/%d_opts" % (fmt, min(len(active), 4))


# ---- strategies -----------------------------------------------------------------------------------

st_spec = st.fixed_dictionaries({
    "n": st.integers(3, 25), "start": st.sampled_from([0, 0, 1, 4]), "seed": st.integers(0, 2 ** 32), "dt": st.sampled_from([0.1, 0.1, 0.05]), "phase": st.sampled_from([0.0, 0.0, 0.002, -0.003]),
    "step": st.sampled_from([0.05, 1.0, 10.0]), "still": st.sampled_from([0.0, 0.25]), "scale": st.sampled_from([1.0, 0.5, 3.0])})
st_tf = st.fixed_dictionaries({
    "rot": gen.st_rotation_generic, "t": st.lists(gen.unit_f, min_size=3, max_size=3), "s": st.sampled_from([0.5, 2.0, 12.5]), "sim3": st.booleans(),
    "how": st.sampled_from(["npy", "txt", "json"]), "right": st.booleans(), "invert": st.booleans(), "propagate": st.booleans(),
    "int_npy": st.sampled_from([False, False, False, True]), "qk": st.integers(0, 63)})


def _mk(fmt, ntraj, specs, refspec, has_ref, like_ref, t0, export, align_mode, correct_scale, n_to_align, sync, merge, downsample, mf, toff, tf, project):
    o = {"t_max_diff": 0.01}
    trajs = specs[:ntraj]
    ref = refspec if has_ref else None
    if fmt == "kitti":
        merge = False
        toff = 0.0
        sync = False
        if export == "tum":
            export = "kitti"
    if ref is None:
        align_mode, correct_scale, sync = "none", False, False
    if fmt == "kitti" and ref is not None:
        # alignment needs equally long paths: no selection that could change lengths differently
        pass
    o["align"] = align_mode == "align"
    o["align_origin"] = align_mode == "origin"
    o["correct_scale"] = correct_scale
    o["n_to_align"] = n_to_align if (o["align"] or correct_scale) else -1
    o["sync"] = sync
    o["merge"] = merge and ntraj >= 1
    o["downsample"] = downsample
    o["motion_filter"] = mf
    o["t_offset"] = toff
    o["project"] = project
    if tf is not None:
        tf = dict(tf)
        if tf["sim3"] and tf["right"]:
            # P*T with a Sim(3) T: position p + R_p t, orientation R_p R (the scale of T reaches nothing); the propagating
            # variant has no rigid-body meaning with a scale and is not generated
            tf["propagate"] = False
        o["transform"] = tf
    if merge and not like_ref:
        # distinct stamps across the merged inputs: give every trajectory its own phase (like_ref: keep the drawn phases,
        # inputs may then share stamps - overlapping segments)
        trajs = [dict(s, phase=0.0007 * (k + 1)) for k, s in enumerate(trajs)]
    if o["align"] or o["correct_scale"]:
        like_ref = True  # a well-posed alignment problem
    return {"fmt": fmt, "trajs": trajs, "ref": ref, "like_ref": like_ref, "t0": t0, "export": export, "opts": o}


_CASE_ARGS = dict(
    fmt=st.sampled_from(["tum", "tum", "euroc", "kitti"]), ntraj=st.sampled_from([1, 2, 2, 3]), specs=st.lists(st_spec, min_size=3, max_size=3),
    refspec=st_spec, has_ref=st.booleans(), like_ref=st.booleans(), t0=st.sampled_from([10.0, 1.5e9]), export=st.sampled_from(["tum", "tum", "kitti"]),
    align_mode=st.sampled_from(["none", "none", "align", "origin"]), correct_scale=st.booleans(), n_to_align=st.sampled_from([-1, -1, 3, 6]),
    sync=st.booleans(), merge=st.booleans(), downsample=st.sampled_from([None, None, 2, 7, 100]),
    mf=st.sampled_from([None, None, [0.5, 5.0], [0.0, 0.0], [5.0, 20.0], [1.0, 400.0], [3.0, 400.0]]), toff=st.sampled_from([0.0, 0.0, 0.25, -1.5]),
    tf=st.one_of(st.none(), st_tf), project=st.sampled_from([None, None, "xy", "xz", "yz"]))


def make_st_case(**overrides):
    """the evo_traj case strategy with some option strategies replaced (used by the checks of other properties that
    observe one processing step through the command line tool)"""
    args = dict(_CASE_ARGS)
    args.update(overrides)
    return st.builds(_mk, **args)


st_case = make_st_case()


def _nt(case):
    o = case["opts"]
    return sum(1 for k in ("downsample", "motion_filter", "merge", "t_offset", "sync", "align", "correct_scale", "align_origin", "transform", "project") if o.get(k)) >= 2


SUBS = [
    Sub("traj", sub_traj, st_case, 4800, 60000, nontrivial=_nt, shards_quick=16),
]
