"""C18 — Config edits keep keys, types, user values; generated configs equal their args."""
import copy
import json
import math
import os
import tempfile
from pathlib import Path

import numpy as np
from hypothesis import strategies as st
from hypothesis.stateful import RuleBasedStateMachine, rule, initialize

from vf import gen, refmodel as rm, cli, findings, pipeline
from vf.core import Mismatch, Sub, HarnessError, case_hash

from evo import main_config, entry_points
from evo.tools import settings as evo_settings
from evo.tools.settings import SettingsContainer, SettingsException
from evo.tools.settings_template import DEFAULT_SETTINGS_DICT as _EVO_DEFAULTS
# an own deep copy taken at import time: evo code that pollutes its module-level defaults must not pollute the oracle
DEFAULT_SETTINGS_DICT = copy.deepcopy(_EVO_DEFAULTS)

PROPERTY = "C18"
RULE = ("(a) rule-based state machine (Hypothesis) on a scratch settings file: set(token lists mixing key names, ints, floats, "
        "negatives, exponents, true/false/TRUE, [], none, words, unknown keys), reset(subset | all), merge(other, soft|hard) with "
        "sub-dictionaries of known keys, version upgrade (older assets_version, removed keys, user values), SettingsContainer "
        "writes; a dict model updated by the documented grammar is compared after every step; (b) Hypothesis argument lists from "
        "the typed options of the evo_ape/evo_rpe/evo_traj parsers: merge_config(parse(base + -c generate(L))) == parse(base + L) "
        "attribute by attribute with int-typed options int, -c priority, SETTINGS override in memory only, and evo_ape with the "
        "generated config writes the same archive as with the arguments. Non-trivial = (a) >= 2 edits touching >= 2 keys incl. a "
        "bool or list key, (b) a list with an int-typed, negative or multi-value option; distinct by SHA-1"
        ' Round-3 additions: reset through evo_config (with/without -y, with parameters), upgrades from a version differing only in the patch or minor component.'
        ' Round-7 addition (cfg_override): the real console entry points of evo_traj / evo_res / evo_ape in fresh processes - package settings given in '
        'the -c file (table_export_format/transpose/data, save_traj_in_zip) must produce byte-identical output to the same values in settings.json, '
        'which itself must stay untouched; non-trivial there = a value different from the default.')
ASSUMPTIONS = ["tokens nan/inf/1e400 make set_config raise before writing: a refused edit (file must be byte-identical)",
               "string option values in (b) do not look like numbers or flags (the documented form of evo_config generate)"]
KEYS = list(DEFAULT_SETTINGS_DICT.keys())
BOOL_KEYS = [k for k, v in DEFAULT_SETTINGS_DICT.items() if isinstance(v, bool)]
LIST_KEYS = [k for k, v in DEFAULT_SETTINGS_DICT.items() if isinstance(v, list)]


def _num(tok):
    try:
        f = float(tok)
    except ValueError:
        return None
    if math.isnan(f) or math.isinf(f):
        return "refuse"
    return int(f) if int(f) - f == 0 else f


def model_set(cfg, tokens):
    """documented grammar of 'evo_config set'; returns new dict or 'refuse'"""
    cfg = copy.deepcopy(cfg)
    n = len(tokens)
    i = 0
    for i, tok in enumerate(tokens):
        if tok not in cfg:
            continue
        vals = []
        j = i + 1
        while j < n and tokens[j] not in cfg:
            v = _num(tokens[j])
            if v == "refuse":
                return "refuse"
            vals.append(tokens[j] if v is None else v)
            j += 1
        cur = cfg[tok]
        if not vals:
            if isinstance(cur, bool):
                cfg[tok] = not cur
            continue
        if tok == "plot_seaborn_palette":
            if len(vals) > 1:
                cfg[tok] = vals
            else:
                cfg[tok] = "PALETTE?"  # decided by seaborn: either the name or [name]
                cfg["__palette_token__"] = vals[0]
            continue
        if isinstance(cur, bool):
            last = vals[-1]
            if isinstance(last, str) and last.lower() == "false":
                cfg[tok] = False
            elif isinstance(last, str) and last.lower() == "true":
                cfg[tok] = True
            else:
                cfg[tok] = not cur
        elif isinstance(cur, list):
            first = vals[0]
            cfg[tok] = [] if (isinstance(first, str) and first.lower() in ("[]", "none")) else vals
        else:
            cfg[tok] = vals[0]
    return cfg


def same_value(a, b):
    if type(a) is not type(b):
        return False
    if isinstance(a, list):
        return len(a) == len(b) and all(same_value(x, y) for x, y in zip(a, b))
    return a == b


def _is_num(t):
    try:
        float(t)
        return True
    except ValueError:
        return False


def _old_version(tok):
    """'patch' / 'minor': the installed version with only its last / middle component changed"""
    if tok not in ("patch", "minor"):
        return tok
    cur = evo_settings.__version__
    parts = cur.lstrip("v").split(".")
    try:
        i = len(parts) - 1 if tok == "patch" else max(len(parts) - 2, 0)
        n = int(parts[i])
        parts[i] = str(n - 1 if n > 0 else n + 1)
        return ("v" if cur.startswith("v") else "") + ".".join(parts)
    except ValueError:
        return "v0.0.1"


class SettingsHistory(object):
    def __init__(self, init):
        self.dir = tempfile.mkdtemp(prefix="c18_", dir=os.getcwd())
        self.path = Path(self.dir) / "settings.json"
        self.version_path = Path(self.dir) / "assets_version"
        self.model = copy.deepcopy(DEFAULT_SETTINGS_DICT)
        evo_settings.write_to_json_file(self.path, self.model)
        self.version_path.write_text(evo_settings.__version__)
        self.edits = 0
        self.touched = set()
        self.check("init")

    def read(self):
        with open(self.path) as f:
            return json.load(f)

    def check(self, after, touched=None):
        data = self.read()
        if set(data.keys()) != set(KEYS):
            added = sorted(set(data) - set(KEYS))
            removed = sorted(set(KEYS) - set(data))
            raise Mismatch("after %s: settings keys changed (added %s, removed %s)" % (after, added, removed), observed="key_set", after=after)
        pal = self.model.pop("__palette_token__", None)
        for k in KEYS:
            exp = self.model[k]
            got = data[k]
            if exp == "PALETTE?" and k == "plot_seaborn_palette":
                if not (got == pal or got == [pal]):
                    raise Mismatch("after %s: plot_seaborn_palette = %r for token %r" % (after, got, pal), observed="value", key=k, after=after)
                self.model[k] = got
                continue
            if not same_value(got, exp):
                kind = "bool_type" if isinstance(DEFAULT_SETTINGS_DICT[k], bool) and not isinstance(got, bool) else (
                    "list_type" if isinstance(DEFAULT_SETTINGS_DICT[k], list) and not isinstance(got, list) and isinstance(exp, list) else "value")
                named = touched is None or k in touched
                raise Mismatch("after %s: %s is %r (%s), the documented effect gives %r (%s)%s" % (
                    after, k, got, type(got).__name__, exp, type(exp).__name__, "" if named else " - a key that was not named"),
                    observed=kind if named else "unnamed_key_changed", key_type=type(DEFAULT_SETTINGS_DICT[k]).__name__, after=after)

    def apply(self, op):
        k = op["op"]
        getattr(self, "_op_" + k)(op)

    def _op_set(self, op):
        toks = [str(t) for t in op["tokens"]]
        before = self.path.read_bytes()
        exp = model_set(self.model, toks)
        # token lists evo refuses with an exception (nothing written): non-finite numbers (inf, nan, 1e400) and a numeric
        # value for plot_seaborn_palette.  Any other token list of the grammar is an edit that has to go through.
        def _nonfinite(t):
            try:
                return not math.isfinite(float(t))
            except ValueError:
                return False
        refusable = any(_nonfinite(t) for t in toks) or any(
            a == "plot_seaborn_palette" and _is_num(b) for a, b in zip(toks, toks[1:]))
        if op.get("cli") and not any(t.startswith("-") and not _is_num(t) for t in toks):
            # the same edit as 'evo_config set <tokens>' (everything after 'set' is handed to set_config)
            if not toks:
                return
            if not self._evo_config(["set"] + toks, "set"):
                if not refusable:
                    raise Mismatch("evo_config set %s failed although the tokens follow the documented grammar" % toks, observed="spurious_refusal", after="set")
                return
        else:
            try:
                main_config.set_config(self.path, toks)
            except Exception as e:  # noqa  a refused edit is not a violation as long as nothing was written
                if self.path.read_bytes() != before:
                    raise Mismatch("set_config raised but the file changed", observed="refused_but_changed", after="set")
                if not refusable:
                    raise Mismatch("set_config(%s) raised %s: %s although the tokens follow the documented grammar" % (toks, type(e).__name__, str(e)[:120]),
                                   observed="spurious_refusal", after="set")
                return
        if exp == "refuse":
            # the implementation accepted what the model refuses: judge only the invariants
            data = self.read()
            self.model = data
            self.check("set(non-finite token)")
            return
        self.model = exp
        named = set(t for t in toks if t in DEFAULT_SETTINGS_DICT)
        self.edits += 1
        self.touched |= named
        self.check("set %s" % toks, touched=named)

    def _evo_config(self, argv, after):
        """evo_config in-process with the package settings path pointed at this history's file; False = refused (file untouched)"""
        before = self.path.read_bytes()
        saved = (evo_settings.DEFAULT_PATH, evo_settings.reset.__defaults__)
        evo_settings.DEFAULT_PATH = self.path
        evo_settings.reset.__defaults__ = (self.path, None)
        try:
            try:
                out = cli.run_config(argv, default_answer="y")
            except Exception:  # noqa  a refused edit is not a violation as long as nothing was written
                if self.path.read_bytes() != before:
                    raise Mismatch("evo_config %s raised but the settings file changed" % " ".join(argv), observed="refused_but_changed", after=after)
                return False
        finally:
            evo_settings.DEFAULT_PATH, evo_settings.reset.__defaults__ = saved
        if out.exit_code != 0:
            if self.path.read_bytes() != before:
                raise Mismatch("evo_config %s failed (%s) but changed the settings file" % (" ".join(argv), out.refused), observed="refused_but_changed", after=after)
            return False
        return True

    def _reset_cli(self, op):
        """the same through 'evo_config reset [-y] [params]' (package settings path pointed at this history's file)"""
        subset = op["subset"]
        argv = ["reset"] + (["-y"] if op.get("yes") else []) + list(subset or [])
        if not self._evo_config(argv, "reset"):
            return
        if not subset:
            self.model = copy.deepcopy(DEFAULT_SETTINGS_DICT)
            self.check("evo_config " + " ".join(argv))
            return
        for k in subset:
            if k in DEFAULT_SETTINGS_DICT:
                self.model[k] = copy.deepcopy(DEFAULT_SETTINGS_DICT[k])
        self.check("evo_config " + " ".join(argv), touched=set(subset))

    def _op_reset(self, op):
        subset = op["subset"]
        if op.get("cli"):
            return self._reset_cli(op)
        if subset is None:
            evo_settings.reset(self.path)
            self.model = copy.deepcopy(DEFAULT_SETTINGS_DICT)
            self.check("reset all")
            return
        evo_settings.reset(self.path, parameter_subset=list(subset))
        for k in subset:
            if k in DEFAULT_SETTINGS_DICT:
                self.model[k] = copy.deepcopy(DEFAULT_SETTINGS_DICT[k])
        self.check("reset %s" % subset, touched=set(subset))

    def _op_merge(self, op):
        other = {k: v for k, v in op["other"].items() if k in DEFAULT_SETTINGS_DICT}
        p = Path(self.dir) / "other.json"
        p.write_text(json.dumps(other))
        if op.get("cli"):
            if not self._evo_config(["set", "-m", str(p)] + (["--soft"] if op["soft"] else []), "merge"):
                return
        else:
            main_config.merge_json_union(str(self.path), str(p), op["soft"])
        if not op["soft"]:
            for k, v in other.items():
                self.model[k] = v
        self.edits += 1
        self.touched |= set(other)
        self.check("merge(soft=%s) %s" % (op["soft"], sorted(other)), touched=set(other))

    def _op_upgrade(self, op):
        """older assets_version, some keys missing (added by a newer evo), user values kept"""
        data = self.read()
        removed = [k for k in op["removed"] if k in data]
        for k in removed:
            del data[k]
        # parameters of the older evo that no longer exist (the upgrade may keep or drop them; they are cleared afterwards)
        obsolete = list(op.get("obsolete") or [])
        for k in obsolete:
            data[k] = 1
        evo_settings.write_to_json_file(self.path, data)
        self.version_path.write_text(_old_version(op["old_version"]))
        saved = (evo_settings.USER_ASSETS_VERSION_PATH, evo_settings.DEFAULT_PATH, evo_settings.USER_ASSETS_PATH)
        evo_settings.USER_ASSETS_VERSION_PATH, evo_settings.DEFAULT_PATH, evo_settings.USER_ASSETS_PATH = self.version_path, self.path, Path(self.dir)
        try:
            import contextlib
            import io
            with contextlib.redirect_stdout(io.StringIO()):
                evo_settings.initialize_if_needed()
                evo_settings.update_if_outdated()
        finally:
            evo_settings.USER_ASSETS_VERSION_PATH, evo_settings.DEFAULT_PATH, evo_settings.USER_ASSETS_PATH = saved
        for k in removed:
            self.model[k] = copy.deepcopy(DEFAULT_SETTINGS_DICT[k])
        if self.version_path.read_text() != evo_settings.__version__:
            raise Mismatch("assets_version not updated by the upgrade", observed="version", after="upgrade")
        if obsolete:
            data = self.read()
            missing = [k for k in removed if k not in data]
            if missing:
                raise Mismatch("upgrade of a settings file holding obsolete keys %s did not add the missing default keys %s" % (obsolete, missing),
                               observed="key_set", after="upgrade")
            for k in obsolete:
                data.pop(k, None)
            evo_settings.write_to_json_file(self.path, data)
        self.check("upgrade (removed %s)" % removed)

    def _op_container(self, op):
        c = SettingsContainer.from_json_file(self.path)
        for k in KEYS:
            if not same_value(getattr(c, k), self.model[k]):
                raise Mismatch("loaded SETTINGS.%s = %r, file model %r" % (k, getattr(c, k), self.model[k]), observed="container_value", after="container")
        try:
            setattr(c, op["unknown"], 1)
        except SettingsException:
            pass
        else:
            if op["unknown"] not in DEFAULT_SETTINGS_DICT:
                raise Mismatch("unknown parameter %r could be added to the loaded settings" % op["unknown"], observed="unknown_added", after="container")
        try:
            getattr(c, op["unknown"])
            if op["unknown"] not in DEFAULT_SETTINGS_DICT:
                raise Mismatch("unknown parameter %r readable" % op["unknown"], observed="unknown_added", after="container")
        except SettingsException:
            pass
        other = dict(op["other"])
        other[op["unknown"]] = 123
        c.update_existing_keys(other)
        keys = set(k for k in c.keys() if k != "__locked__")
        if keys != set(KEYS):
            raise Mismatch("update_existing_keys changed the key set: %s" % sorted(keys ^ set(KEYS)), observed="key_set", after="container")
        for k, v in op["other"].items():
            if k in DEFAULT_SETTINGS_DICT and not same_value(c[k], v):
                raise Mismatch("update_existing_keys did not override %s" % k, observed="container_value", after="container")
        self.check("container ops (file must be untouched)")


def replay(case):
    h = SettingsHistory(case.get("init", {}))
    for op in case["ops"]:
        h.apply(op)
    return "edits%d" % min(h.edits, 3)


def _nt_hist(case):
    keys = set()
    edits = 0
    for op in case["ops"]:
        if op["op"] == "set":
            named = [t for t in op["tokens"] if t in DEFAULT_SETTINGS_DICT]
            if named:
                edits += 1
                keys |= set(named)
        elif op["op"] == "merge":
            edits += 1
            keys |= set(op["other"])
    return edits >= 2 and len(keys) >= 2 and any(k in BOOL_KEYS or k in LIST_KEYS for k in keys)


# ---- strategies (a) ---------------------------------------------------------------------------------

st_key = st.one_of(st.sampled_from(KEYS), st.sampled_from(BOOL_KEYS), st.sampled_from(LIST_KEYS))
st_numtok = st.one_of(st.integers(-1000, 1000).map(str), st.sampled_from(["1.5", "-0.25", "1e3", "2.0", "1E-2", "-7", "+3", "0", "10.0", ".5", "5."]),
                      gen.fl(-1e6, 1e6).map(repr))
st_word = st.sampled_from(["true", "false", "TRUE", "False", "[]", "none", "None", "png", "svg", "rmse", "mean", "deep", "husl", "Set2", "xy", "a b",
                           "unknown_key", "--flag", "nan", "inf", "1e400", "", "plot", "0x1"])
st_token = st.one_of(st_key, st_key, st_numtok, st_word)
st_other = st.dictionaries(st.sampled_from(KEYS), st.one_of(st.booleans(), st.integers(-5, 500), gen.fl(-10, 10), st.sampled_from(["png", "xy", "abc"]),
                                                            st.lists(st.one_of(st.integers(0, 20), st.sampled_from(["rmse", "max"])), max_size=3)), max_size=4)
OPS = {
    "set": st.fixed_dictionaries({"op": st.just("set"), "tokens": st.lists(st_token, min_size=0, max_size=8), "cli": st.sampled_from([False, False, True])}),
    "reset": st.fixed_dictionaries({"op": st.just("reset"), "subset": st.one_of(st.none(), st.lists(st.one_of(st.sampled_from(KEYS), st.just("bogus")), max_size=5)),
                                    "cli": st.booleans(), "yes": st.booleans()}),
    "merge": st.fixed_dictionaries({"op": st.just("merge"), "other": st_other, "soft": st.booleans(), "cli": st.booleans()}),
    "upgrade": st.fixed_dictionaries({"op": st.just("upgrade"), "removed": st.lists(st.sampled_from(KEYS), max_size=5, unique=True),
                                      "old_version": st.sampled_from(["v1.0.0", "v1.30.0", "", "1.31.0", "patch", "minor", "patch", "v1.9.0", "v1.4.2", "v0.9.9", "v2.0.0"]),
                                      "obsolete": st.lists(st.sampled_from(["plot_old_option", "legacy_flag", "tf_old", "zz_removed"]), max_size=4, unique=True)}),
    "container": st.fixed_dictionaries({"op": st.just("container"), "unknown": st.sampled_from(["foo", "plot_foo", "__x", "rmse"]), "other": st_other}),
}


class SettingsMachine(RuleBasedStateMachine):
    vf_violation = None
    vf_prop = PROPERTY
    vf_sub = None
    vf_rep = None

    @classmethod
    def vf_reset(cls, prop, sub, rep):
        cls.vf_violation = None
        cls.vf_prop, cls.vf_sub, cls.vf_rep = prop, sub, rep

    def __init__(self):
        super().__init__()
        self.case = {"ops": []}
        self.dead = False
        self.h = None
        self._guard(lambda: setattr(self, "h", SettingsHistory({})))

    def _guard(self, fn):
        from vf.runner import _is_from_repo
        cls = type(self)
        try:
            fn()
            return
        except Mismatch as m:
            msg, tags = m.msg, m.tags
        except (HarnessError, AssertionError):
            raise
        except Exception as e:  # noqa
            inner = _is_from_repo(e)
            if inner is None:
                if not isinstance(e, (KeyError, IndexError, ValueError, TypeError, AttributeError, ZeroDivisionError)):
                    raise
                # the model could not interpret what evo handed back (see runner.execute_case)
                msg = "evo's output could not be interpreted by the check (%s: %s) - missing/malformed key, array or value" % (type(e).__name__, str(e)[:200])
                tags = {"observed": "malformed_output", "exc_type": type(e).__name__}
            else:
                msg = "unexpected %s escaped evo (%s:%s): %s" % (type(e).__name__, inner[0], inner[1], str(e)[:300])
                tags = {"observed": "unexpected_exception", "exc_type": type(e).__name__, "evo_func": inner[1]}
        kf = findings.match(cls.vf_prop, cls.vf_sub.name, tags)
        if kf:
            cls.vf_rep.known[kf] = cls.vf_rep.known.get(kf, 0) + 1
            self.dead = True
            return
        cls.vf_violation = {"sub": cls.vf_sub.name, "case": copy.deepcopy(self.case), "message": msg, "tags": tags}
        raise Mismatch(msg, **tags)

    def _do(self, op):
        if self.dead or self.h is None:
            return
        self.case["ops"].append(op)
        self._guard(lambda: self.h.apply(op))

    def teardown(self):
        cls = type(self)
        if cls.vf_rep is not None and not self.dead and cls.vf_violation is None and self.case["ops"]:
            cls.vf_rep.count(cls.vf_sub.name, self.case, "ops%d" % min(15, 5 * (len(self.case["ops"]) // 5)), _nt_hist(self.case))


def _mk_rule(name, strat):
    def r(self, op):
        self._do(op)
    r.__name__ = "op_" + name
    return rule(op=strat)(r)


for _n, _s in OPS.items():
    setattr(SettingsMachine, "op_" + _n, _mk_rule(_n, _s))
setattr(SettingsMachine, "op_set2", _mk_rule("set2", OPS["set"]))


# ---- (b) generated configs ----------------------------------------------------------------------------

def _typed_options(app):
    """(dest, option string, kind, nargs, choices) of the long options of an evo parser's tum sub-command"""
    import importlib
    pm = importlib.import_module("evo.main_%s_parser" % app)
    parser = pm.parser()
    sub = None
    for a in parser._actions:
        if a.__class__.__name__ == "_SubParsersAction":
            sub = a.choices["tum"]
    out = []
    for a in sub._actions:
        longs = [s for s in a.option_strings if s.startswith("--")]
        if not longs or a.dest in ("help", "config"):
            continue
        cn = a.__class__.__name__
        if cn == "_StoreTrueAction":
            out.append((a.dest, longs[0], "flag", None, None))
        elif cn == "_StoreAction":
            kind = "int" if a.type is int else ("float" if a.type is float else "str")
            out.append((a.dest, longs[0], kind, a.nargs, list(a.choices) if a.choices else None))
    return out


_OPT_CACHE = {}


def typed_options(app):
    if app not in _OPT_CACHE:
        _OPT_CACHE[app] = _typed_options(app)
    return _OPT_CACHE[app]


EXCLUDE = {"plot", "save_plot", "serialize_plot", "save_results", "logfile", "ros_map_yaml", "map_tile", "save_table", "save_as_bag", "save_as_bag2",
           "transform_left", "transform_right", "ref", "debug", "verbose", "silent", "save_as_tum", "save_as_kitti", "no_warnings", "merge", "full_check",
           "show_full_names", "plot_relative_time", "sync"}
GROUP = {"align": "ag", "align_origin": "ag"}


def build_args(app, picks):
    """picks: list of (index, value spec) -> argument list L in the documented long, space-separated form"""
    opts = [o for o in typed_options(app) if o[0] not in EXCLUDE]
    L = []
    used = set()
    groups = set()
    feats = set()
    for idx, spec in picks:
        dest, flag, kind, nargs, choices = opts[idx % len(opts)]
        if dest in used:
            continue
        g = GROUP.get(dest)
        if g and g in groups:
            continue
        if g:
            groups.add(g)
        used.add(dest)
        if kind == "flag":
            L.append(flag)
        elif choices:
            L += [flag, str(choices[spec["i"] % len(choices)])]
        elif kind == "int":
            v = spec["int"]
            if dest in ("downsample",):
                v = abs(v) + 1
            if dest == "n_to_align":
                v = 3 + abs(v)
            L += [flag, str(v)]
            feats.add("int")
        elif kind == "float":
            if nargs == 2:
                L += [flag, spec["f1"], spec["f2"]]
                feats.add("multi")
            else:
                v = spec["f1"]
                if dest in ("delta", "delta_tol", "t_max_diff", "plot_colormap_max_percentile"):
                    v = v.lstrip("-+")
                L += [flag, v]
                if v.startswith("-"):
                    feats.add("negative")
        else:
            L += [flag, spec["s"]]
    return L, feats


def sub_generate(case):
    import importlib
    app = case["app"]
    L, feats = build_args(app, [(p["idx"], p) for p in case["picks"]])
    d = tempfile.mkdtemp(prefix="c18g_", dir=os.getcwd())
    base = ["tum", "ref.txt", "est.txt"] if app != "traj" else ["tum", "a.txt"]
    pm = importlib.import_module("evo.main_%s_parser" % app)
    try:
        direct = pm.parser().parse_args(base + L)
    except SystemExit:
        raise HarnessError("generated argument list rejected by argparse: %s" % L)
    data = main_config.generate(L)
    cfg = os.path.join(d, "gen.json")
    with open(cfg, "w") as f:
        f.write(json.dumps(data, indent=4, sort_keys=True))
    cli.reset_state()
    via = entry_points.merge_config(pm.parser().parse_args(base + ["-c", cfg]))
    cli.reset_state()
    dv, vv = vars(direct), vars(via)
    for k in dv:
        if k == "config":
            continue
        a, b = dv[k], vv.get(k, "<missing>")
        same = (a == b) and not (isinstance(a, bool) ^ isinstance(b, bool))
        if isinstance(a, int) and not isinstance(a, bool) and not (isinstance(b, int) and not isinstance(b, bool)) and same:
            raise Mismatch("generated config gives %s = %r (%s), the arguments %s give the int %r" % (k, b, type(b).__name__, L, a),
                           observed="int_as_float", option=k)
        if not same:
            neg = isinstance(a, float) and a < 0 or (isinstance(a, list) and any(isinstance(x, float) and x < 0 for x in a))
            raise Mismatch("generated config gives %s = %r, passing the arguments %s directly gives %r" % (k, b, L, a),
                           observed="negative_value" if neg else "value_differs", option=k)
    extra = set(vv) - set(dv)
    if extra:
        raise Mismatch("generated config adds unknown arguments %s for %s" % (sorted(extra), L), observed="extra_keys")
    return "%s/%s" % (app, "+".join(sorted(feats)) or "plain")


def sub_priority(case):
    """-c wins over a conflicting command line value; SETTINGS overridden in memory only"""
    from evo.tools.settings import SETTINGS, DEFAULT_PATH
    from evo import main_ape_parser
    d = tempfile.mkdtemp(prefix="c18p_", dir=os.getcwd())
    cfg = os.path.join(d, "c.json")
    key = case["setting"]
    newval = case["value"]
    with open(cfg, "w") as f:
        json.dump({"t_max_diff": 0.5, "align": True, "pose_relation": "angle_deg", key: newval, "downsample": 7}, f)
    before = DEFAULT_PATH.read_bytes()
    cli.reset_state()
    old = SETTINGS[key]
    args = entry_points.merge_config(main_ape_parser.parser().parse_args(
        ["tum", "r.txt", "e.txt", "--t_max_diff", "0.01", "-r", "full", "--downsample", "100", "-c", cfg]))
    try:
        if args.t_max_diff != 0.5 or args.align is not True or args.pose_relation != "angle_deg" or args.downsample != 7:
            raise Mismatch("config file did not take priority over the command line: %s" % {k: getattr(args, k) for k in ("t_max_diff", "align", "pose_relation", "downsample")},
                           observed="priority")
        if not same_value(SETTINGS[key], newval):
            raise Mismatch("package setting %s not overridden by the -c file for this run (is %r)" % (key, SETTINGS[key]), observed="settings_override")
        if set(k for k in SETTINGS.keys() if k != "__locked__") != set(KEYS):
            raise Mismatch("-c file added keys to the package settings", observed="key_set")
        if DEFAULT_PATH.read_bytes() != before:
            raise Mismatch("settings.json on disk changed by a -c run", observed="settings_file_changed")
    finally:
        cli.reset_state()
    return "priority"


def sub_same_effect(case):
    """evo_ape with the generated config writes the same archive as with the arguments"""
    from vf.checks.c01 import run_cli_case
    c = {"fmt": "tum", "data": case["data"], "opts": case["opts"]}
    d = tempfile.mkdtemp(prefix="c18e_", dir=os.getcwd())
    ref, est = pipeline.make_inputs(c)
    files = pipeline.write_inputs(d, "tum", ref, est)
    cfg0 = pipeline.write_cfg(d)
    full = pipeline.base_argv(c, files, os.path.join(d, "direct.zip"), cfg0)
    # split: positional + output options stay on the command line, algorithm options go through generate
    fixed = full[:3]
    tail = full[3:]
    cut = tail.index("--save_results")
    algo = tail[:cut]
    out1 = cli.run("ape", fixed + algo + ["--save_results", os.path.join(d, "direct.zip"), "--no_warnings", "--silent", "-c", cfg0], cwd=d)
    data = main_config.generate(algo)
    data["save_traj_in_zip"] = True
    cfg = os.path.join(d, "gen.json")
    json.dump(data, open(cfg, "w"))
    out2 = cli.run("ape", fixed + ["--save_results", os.path.join(d, "viacfg.zip"), "--no_warnings", "--silent", "-c", cfg], cwd=d)
    if (out1.exit_code == 0) != (out2.exit_code == 0):
        raise Mismatch("evo_ape with arguments %s exits %d, with the generated config %s exits %d (%s)" % (algo, out1.exit_code, data, out2.exit_code, out2.refused or out1.refused),
                       observed="effect_differs")
    if out1.exit_code != 0:
        return "both_refused"
    a1 = cli.read_archive(os.path.join(d, "direct.zip"))
    a2 = cli.read_archive(os.path.join(d, "viacfg.zip"))
    if a1["stats"] != a2["stats"] or set(a1["arrays"]) != set(a2["arrays"]) or any(not np.array_equal(a1["arrays"][k], a2["arrays"][k]) for k in a1["arrays"]):
        raise Mismatch("evo_ape with the generated config %s gives another result than with the arguments %s" % (data, algo), observed="effect_differs")
    return "same_effect"



_ENTRY_SNIPPET = "import sys; sys.argv = %r; from evo import entry_points; entry_points.%s()"


def _entry_run(app, argv, home, cwd):
    """the real console entry point in a fresh interpreter (import order and module-level defaults as in a user's run)"""
    import subprocess, sys
    env = {"HOME": home, "PATH": os.environ.get("PATH", ""), "PYTHONPATH": os.environ.get("VF_REPO", "/repo"), "PYTHONNOUSERSITE": "1",
           "PYTHONDONTWRITEBYTECODE": "1", "PYTHONHASHSEED": "0", "MPLBACKEND": "Agg", "OPENBLAS_NUM_THREADS": "1", "OMP_NUM_THREADS": "1",
           "PYTHONWARNINGS": "ignore"}
    return subprocess.run([sys.executable, "-B", "-s", "-c", _ENTRY_SNIPPET % (["evo_" + app] + argv, app)], env=env, cwd=cwd,
                          stdout=subprocess.PIPE, stderr=subprocess.PIPE, timeout=300)


def _settings_text(overrides):
    dd = copy.deepcopy(DEFAULT_SETTINGS_DICT)
    dd.update(overrides)
    return json.dumps(dd, indent=4, sort_keys=True)


def sub_cfg_override(case):
    """a package setting in the -c file has, for that run, the effect of the same value in settings.json - through the real entry
    point in a fresh process - and settings.json itself stays as it was"""
    from evo.core import result as evo_result
    from evo.tools import file_interface
    app = case["app"]
    over = {k: v for k, v in case["settings"].items() if v is not None}
    if app != "res":
        over.pop("table_export_data", None)
    if app == "ape":
        over = {k: v for k, v in over.items() if k == "save_traj_in_zip"}
    else:
        over.pop("save_traj_in_zip", None)
    if not over:
        return "empty"
    d = tempfile.mkdtemp(prefix="c18o_", dir=os.getcwd())
    n = case["n"]
    lines = ["%r %r %r %r 0 0 0 1" % (float(i) * 0.5, float(i) * case["step"], float(i % 3), 0.25 * i) for i in range(n)]
    for name in ("a.tum", "b.tum"):
        with open(os.path.join(d, name), "w") as f:
            f.write("\n".join(lines) + "\n")
            lines = lines[:-1] + ["%r 9.5 1.0 2.0 0 0 0 1" % (float(n) * 0.5)]
    if app == "res":
        for i, name in enumerate(("r1.zip", "r2.zip")):
            r = evo_result.Result()
            r.add_info({"title": "APE w.r.t. translation part (m)", "est_name": "est%d" % i, "ref_name": "ref", "label": "APE (m)"})
            r.add_stats({"rmse": 1.0 + i, "mean": 0.5 * (i + 1), "max": 3.0 + i, "min": 0.25, "median": 0.75, "std": 0.125, "sse": 10.0 + i})
            r.add_np_array("error_array", np.arange(n, dtype=float) * (i + 1))
            r.add_np_array("timestamps", np.arange(n, dtype=float))
            file_interface.save_res_file(os.path.join(d, name), r)
    outs = {}
    for mode in ("cfg", "file"):
        home = os.path.join(d, "home_" + mode)
        os.makedirs(os.path.join(home, ".evo"))
        text = _settings_text(over if mode == "file" else {})
        spath = os.path.join(home, ".evo", "settings.json")
        with open(spath, "w") as f:
            f.write(text)
        out = os.path.join(d, "out_" + mode + (".zip" if app == "ape" else ".tbl"))
        if app == "traj":
            argv = ["tum", "a.tum", "b.tum", "--save_table", out, "--no_warnings"]
        elif app == "res":
            argv = ["r1.zip", "r2.zip", "--save_table", out, "--no_warnings"]
        else:
            argv = ["tum", "a.tum", "b.tum", "--save_results", out, "--no_warnings"]
        if mode == "cfg":
            cfg = os.path.join(d, "c.json")
            with open(cfg, "w") as f:
                json.dump(over, f)
            argv += ["-c", cfg]
        r = _entry_run(app, argv, home, d)
        if r.returncode != 0 or not os.path.exists(out):
            raise Mismatch("evo_%s %s (settings %s given through %s) exits %d without the output: %s" % (
                app, argv, over, "the -c file" if mode == "cfg" else "settings.json", r.returncode, r.stderr.decode(errors="replace")[-300:]),
                observed="run_failed_" + mode)
        if open(spath).read() != text:
            raise Mismatch("evo_%s %s rewrote settings.json (the -c override is for that run only)" % (app, argv), observed="settings_file_changed")
        if app == "ape":
            import zipfile
            with zipfile.ZipFile(out) as z:
                outs[mode] = sorted(z.namelist())
        else:
            outs[mode] = open(out, "rb").read()
    if outs["cfg"] != outs["file"]:
        raise Mismatch("evo_%s with %s in the -c file writes another %s than with the same values in settings.json: %r vs %r" % (
            app, over, "archive member list" if app == "ape" else "table", outs["cfg"][:160], outs["file"][:160]), observed="cfg_not_effective", app=app,
            keys=sorted(over))
    fmt = over.get("table_export_format")
    if app != "ape" and fmt == "json":
        try:
            json.loads(outs["cfg"].decode())
        except ValueError:
            raise Mismatch("evo_%s with table_export_format=json in the -c file writes a table that is not JSON: %r" % (app, outs["cfg"][:120]),
                           observed="format_ignored", app=app)
    if app != "ape" and fmt == "html" and not outs["cfg"].lstrip().startswith(b"<table"):
        raise Mismatch("evo_%s with table_export_format=html in the -c file writes a table that is not HTML: %r" % (app, outs["cfg"][:120]),
                       observed="format_ignored", app=app)
    return "%s/%s" % (app, "+".join(sorted(over)))


st_override = st.fixed_dictionaries({
    "app": st.sampled_from(["traj", "res", "res", "ape"]), "n": st.integers(3, 9), "step": st.sampled_from([0.5, 1.0, 2.25]),
    "settings": st.fixed_dictionaries({
        "table_export_format": st.sampled_from([None, "csv", "json", "html", "string"]),
        "table_export_transpose": st.sampled_from([None, True, False]),
        "table_export_data": st.sampled_from([None, "stats", "info", "error_array"]),
        "save_traj_in_zip": st.sampled_from([None, True, False])})})


def _nt_override(c):
    s = c["settings"]
    if c["app"] == "ape":
        return s["save_traj_in_zip"] is True
    return (s["table_export_format"] not in (None, DEFAULT_SETTINGS_DICT["table_export_format"])
            or s["table_export_transpose"] not in (None, DEFAULT_SETTINGS_DICT["table_export_transpose"])
            or (c["app"] == "res" and s["table_export_data"] not in (None, DEFAULT_SETTINGS_DICT["table_export_data"])))

st_pick = st.fixed_dictionaries({
    "idx": st.integers(0, 60), "i": st.integers(0, 10), "int": st.integers(-3, 600),
    "f1": st.sampled_from(["0.5", "-0.5", "2", "-3", "1e-3", "-125.5", "0.0", "10.0", "3.75", "-.5"]), "f2": st.sampled_from(["5.0", "-1.5", "20", "0.25"]),
    "s": st.sampled_from(["xy", "name", "file.txt"])})
st_gen = st.fixed_dictionaries({"app": st.sampled_from(["ape", "rpe", "traj"]), "picks": st.lists(st_pick, min_size=1, max_size=6)})
st_prio = st.fixed_dictionaries({"setting": st.sampled_from(["save_traj_in_zip", "plot_split", "table_export_format", "plot_figsize"]),
                                 "value": st.sampled_from([True, "excel", [4, 3]])}).filter(
    lambda c: type(DEFAULT_SETTINGS_DICT[c["setting"]]) is type(c["value"]))
from vf.checks.c01 import st_cli as _st_cli
st_effect = _st_cli().filter(lambda c: c["fmt"] == "tum").map(lambda c: {"data": c["data"], "opts": c["opts"]})


def _nt_gen(c):
    L, feats = build_args(c["app"], [(p["idx"], p) for p in c["picks"]])
    return bool(feats)


SUBS = [
    Sub("settings_history", replay, kind="machine", state_machine=SettingsMachine, n_quick=400, n_thorough=20000, steps=12, nontrivial=_nt_hist, shards_quick=8),
    Sub("generate", sub_generate, st_gen, 1500, 60000, nontrivial=_nt_gen),
    Sub("priority", sub_priority, st_prio, 20, 200, shards_quick=1, shards_thorough=2),
    Sub("same_effect", sub_same_effect, st_effect, 150, 5000, nontrivial=lambda c: True, shards_quick=8),
    Sub("cfg_override", sub_cfg_override, st_override, 48, 1200, nontrivial=_nt_override, shards_quick=16, shards_thorough=16),
]
