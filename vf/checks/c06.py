"""C06 — Writing and re-reading any supported format is lossless."""
import io
import math
import os
import pathlib
import tempfile

import numpy as np
from hypothesis import strategies as st

from vf import gen, refmodel as rm
from vf.core import Mismatch, Sub

from evo.core import result as evo_result
from evo.core.trajectory import PosePath3D, PoseTrajectory3D
from evo.tools import file_interface, pandas_bridge

PROPERTY = "C06"
RULE = ("Hypothesis trajectories (1-30 poses drawn; bulk to 1e5 poses in the thorough tier) with coordinates over the full finite "
        "double range (stratified 1e-300..1e300, any finite float, -0.0, subnormals), unit quaternions with full mantissas, epoch "
        "timestamps with ns fractions; results with arbitrary finite stats, unicode info, arrays (1-D incl. empty, 4x4) with and "
        "without embedded trajectories; str / pathlib.Path / handle variants; TUM, KITTI, result archive, DataFrame, ROS1 bag. "
        "Non-trivial = a stored value needing >= 16 significant digits, or magnitude outside 1e+-100, or -0.0; distinct by SHA-1"
        ' Round-3 additions: views/derived quantities materialised before writing; bag export through evo_traj --save_as_bag with a reference topic.')
ASSUMPTIONS = ["bit-exact comparison (numpy.array_equal plus sign of zeros) on what the format stores; for matrix-built objects the "
               "quaternion evo derives is what a TUM file stores",
               "ROS1 bag: 0 <= t < 2^31, |dt| <= 1 ns + 0.5 ulp(t) (measured on the unchanged tree: <= 1 ns, exactly 0 at epoch size); ROS2 is outside the statement"]

anyf = st.floats(allow_nan=False, allow_infinity=False, width=64)
coord = st.one_of(anyf, gen.log_uniform(-300, 300), gen.log_uniform(-3, 7), st.sampled_from([0.0, -0.0, 5e-324, -5e-324, 1.7976931348623157e308,
                                                                                            0.1, 1 / 3, 4e5 + 0.123456789012345, 5.5e6 + 1e-9]))


def bits_equal(a, b):
    a = np.ascontiguousarray(np.asarray(a, dtype=np.float64))
    b = np.ascontiguousarray(np.asarray(b, dtype=np.float64))
    return a.shape == b.shape and a.tobytes() == b.tobytes()


def _needs_digits(v):
    v = float(v)
    if v == 0.0:
        return math.copysign(1.0, v) < 0
    r = repr(v)
    mant = r.split("e")[0].replace("-", "").replace(".", "").lstrip("0")
    return len(mant) >= 16 or abs(v) > 1e100 or abs(v) < 1e-100


def build_traj(case, timed):
    n = len(case["P"])
    P = np.asarray(case["P"], dtype=float).reshape(n, 3)
    Q = np.array([gen.rot_quat(r) for r in (case["rots"] * n)[:n]])
    T = gen.stamps({"t0": case["t0"], "dts": (case["dts"] * n)[: n - 1]}) if timed else None
    if case.get("qscale") and case["mode"] == "pq":
        # quaternions that are unit only to the precision of a text file (valid by evo's own check()): stored as they are
        f = np.asarray((list(case["qscale"]) * n)[:n], dtype=float)
        Q = Q * (1.0 + f)[:, None]
    if case["mode"] == "pq":
        kw = dict(positions_xyz=P.copy(), orientations_quat_wxyz=Q.copy())
    else:
        kw = dict(poses_se3=rm.poses_from(P, Q))
    obj = PoseTrajectory3D(timestamps=T.copy(), **kw) if timed else PosePath3D(**kw)
    for v in case.get("pre", ()):
        # representations an earlier read-only step (check(), a metric, another export) has materialised
        try:
            getattr(obj, v)
        except Exception:  # noqa  (e.g. non-finite path lengths at the edge of the double range)
            pass
    return obj, P, Q, T


def _cmp_traj(orig, back, what, timed, stored_q=True):
    if type(back) is not type(orig):
        raise Mismatch("%s: type %s came back as %s" % (what, type(orig).__name__, type(back).__name__), observed="type", fmt=what)
    if back.num_poses != orig.num_poses:
        raise Mismatch("%s: %d poses came back as %d" % (what, orig.num_poses, back.num_poses), observed="count", fmt=what)
    if timed and not bits_equal(back.timestamps, orig.timestamps):
        raise Mismatch("%s: timestamps differ after the round trip: %r vs %r" % (what, np.asarray(back.timestamps)[:3].tolist(), np.asarray(orig.timestamps)[:3].tolist()),
                       observed="timestamps", fmt=what)
    if not bits_equal(back.positions_xyz, orig.positions_xyz):
        raise Mismatch("%s: positions differ after the round trip" % what, observed="positions", fmt=what)
    if stored_q and not bits_equal(back.orientations_quat_wxyz, orig.orientations_quat_wxyz):
        raise Mismatch("%s: quaternions differ after the round trip" % what, observed="quaternions", fmt=what)


def _target(via, suffix):
    d = tempfile.mkdtemp(prefix="c06_", dir=os.getcwd())
    p = os.path.join(d, "f" + suffix)
    if via == "str":
        return p, p
    if via == "pathlib":
        return pathlib.Path(p), pathlib.Path(p)
    return None, None


def sub_tum(case):
    obj, P, Q, T = build_traj(case, True)
    via = case["via"]
    if via == "handle":
        h = io.StringIO()
        file_interface.write_tum_trajectory_file(h, obj)
        h.seek(0)
        back = file_interface.read_tum_trajectory_file(h)
    else:
        w, r = _target(via, ".tum")
        file_interface.write_tum_trajectory_file(w, obj)
        back = file_interface.read_tum_trajectory_file(r)
    _cmp_traj(obj, back, "TUM", True)
    if case["mode"] == "pq" and not (bits_equal(back.positions_xyz, P) and bits_equal(back.orientations_quat_wxyz, Q) and bits_equal(back.timestamps, T)):
        raise Mismatch("TUM: numbers differ from the ones the trajectory was built from", observed="positions", fmt="TUM")
    return "tum/" + via


def sub_kitti(case):
    obj, P, Q, T = build_traj(case, case["timed"])
    via = case["via"]
    if via == "handle":
        h = io.StringIO()
        file_interface.write_kitti_poses_file(h, obj)
        h.seek(0)
        back = file_interface.read_kitti_poses_file(h)
    else:
        w, r = _target(via, ".kitti")
        file_interface.write_kitti_poses_file(w, obj)
        back = file_interface.read_kitti_poses_file(r)
    if type(back) is not PosePath3D:
        raise Mismatch("KITTI reader returned %s" % type(back).__name__, observed="type", fmt="KITTI")
    A = np.array([np.asarray(p)[:3, :] for p in obj.poses_se3])
    B = np.array([np.asarray(p)[:3, :] for p in back.poses_se3])
    if not bits_equal(A, B):
        raise Mismatch("KITTI: the 12 matrix entries differ after the round trip", observed="matrix", fmt="KITTI")
    for p in back.poses_se3:
        if not np.array_equal(np.asarray(p)[3], [0.0, 0.0, 0.0, 1.0]):
            raise Mismatch("KITTI: bottom row", observed="matrix", fmt="KITTI")
    return "kitti/" + via


def sub_df(case):
    obj, P, Q, T = build_traj(case, case["timed"])
    df = pandas_bridge.trajectory_to_df(obj)
    if list(df.columns) != ["x", "y", "z", "qw", "qx", "qy", "qz"] or len(df) != obj.num_poses:
        raise Mismatch("DataFrame columns/rows: %s x %d" % (list(df.columns), len(df)), observed="columns", fmt="DataFrame")
    if not bits_equal(df[["x", "y", "z"]].to_numpy(), obj.positions_xyz) or not bits_equal(df[["qw", "qx", "qy", "qz"]].to_numpy(), obj.orientations_quat_wxyz):
        raise Mismatch("DataFrame values differ from the trajectory", observed="positions", fmt="DataFrame")
    if case["timed"] and not bits_equal(df.index.to_numpy(), obj.timestamps):
        raise Mismatch("DataFrame index differs from the timestamps", observed="timestamps", fmt="DataFrame")
    back = pandas_bridge.df_to_trajectory(df)
    _cmp_traj(obj, back, "DataFrame", case["timed"])
    exp = pandas_bridge.df_to_trajectory(df, as_type=type(obj))
    _cmp_traj(obj, exp, "DataFrame(as_type)", case["timed"])
    return "df/" + ("traj" if case["timed"] else "path")


def _mk_result(case):
    r = evo_result.Result()
    r.add_info(dict(case["info"]))
    r.add_stats({k: float(v) for k, v in case["stats"].items()})
    for name, arr in case["arrays"].items():
        a = np.asarray(arr["data"], dtype=float)
        if arr["shape"] == "4x4":
            a = np.resize(a if a.size else np.zeros(1), 16).reshape(4, 4)
        elif arr["shape"] == "int":
            a = np.asarray([int(abs(v)) % 1000 for v in arr["data"]], dtype=np.int64)
        r.add_np_array(name, a)
    trajs = {}
    for name, tc in case["trajs"].items():
        obj, P, Q, T = build_traj(tc, tc["timed"])
        r.add_trajectory(name, obj)
        trajs[name] = obj
    return r, trajs


def sub_result(case):
    r, trajs = _mk_result(case)
    via = case["via"]
    if via == "handle":
        h = io.BytesIO()
        file_interface.save_res_file(h, r)
        h.seek(0)
        back = file_interface.load_res_file(h, load_trajectories=True)
        h.seek(0)
        back_nt = file_interface.load_res_file(h, load_trajectories=False)
    else:
        w, rd = _target(via, ".zip")
        file_interface.save_res_file(w, r)
        back = file_interface.load_res_file(rd, load_trajectories=True)
        back_nt = file_interface.load_res_file(rd, load_trajectories=False)
    if back.info != r.info:
        raise Mismatch("result info differs after the round trip: %r vs %r" % (back.info, r.info), observed="info", fmt="result")
    if set(back.stats) != set(r.stats):
        raise Mismatch("result stats keys differ", observed="stats", fmt="result")
    for k, v in r.stats.items():
        if not bits_equal([back.stats[k]], [v]):
            raise Mismatch("result statistic %s: %r came back as %r" % (k, v, back.stats[k]), observed="stats", fmt="result")
    if set(back.np_arrays) != set(r.np_arrays):
        raise Mismatch("result arrays %s came back as %s" % (sorted(r.np_arrays), sorted(back.np_arrays)), observed="arrays", fmt="result")
    for k, a in r.np_arrays.items():
        b = back.np_arrays[k]
        if b.dtype != a.dtype or b.shape != a.shape or a.tobytes() != b.tobytes():
            raise Mismatch("result array %s differs after the round trip (dtype %s->%s shape %s->%s)" % (k, a.dtype, b.dtype, a.shape, b.shape),
                           observed="arrays", fmt="result")
    if set(back.trajectories) != set(trajs):
        raise Mismatch("embedded trajectories %s came back as %s" % (sorted(trajs), sorted(back.trajectories)), observed="trajectories", fmt="result")
    for k, t in trajs.items():
        b = back.trajectories[k]
        if isinstance(t, PoseTrajectory3D):
            _cmp_traj(t, b, "result/tum", True)
        else:
            if type(b) is not PosePath3D:
                raise Mismatch("embedded path came back as %s" % type(b).__name__, observed="type", fmt="result")
            A = np.array([np.asarray(p)[:3, :] for p in t.poses_se3])
            B = np.array([np.asarray(p)[:3, :] for p in b.poses_se3])
            if not bits_equal(A, B):
                raise Mismatch("embedded path matrices differ", observed="matrix", fmt="result")
    if back_nt.trajectories:
        raise Mismatch("trajectories loaded although not requested", observed="trajectories", fmt="result")
    if back_nt.info != r.info or set(back_nt.np_arrays) != set(r.np_arrays):
        raise Mismatch("result without trajectories differs", observed="info", fmt="result")
    return "result/%s/%d_traj" % (via, len(trajs))


def sub_result_history(case):
    """history on one location: save A, load, save B to the same location, load -> B (path given as str / relative str / Path)"""
    d = tempfile.mkdtemp(prefix="c06h_", dir=os.getcwd())
    via = case["via"]
    full = os.path.join(d, "res.zip")
    if via == "pathlib":
        target = pathlib.Path(full)
    elif via == "relative":
        target = os.path.relpath(full, os.getcwd())
    else:
        target = full
    for k, rc in enumerate(case["results"]):
        r, trajs = _mk_result(dict(rc, via="str"))
        r.info["history_step"] = k
        file_interface.save_res_file(target, r)
        back = file_interface.load_res_file(target, load_trajectories=bool(case["load_trajectories"]))
        if back.info != r.info:
            raise Mismatch("save/load nr. %d on the same location (%s): info %r came back as %r" % (k + 1, via, r.info, back.info), observed="stale_load", fmt="result")
        if set(back.stats) != set(r.stats) or any(not bits_equal([back.stats[x]], [r.stats[x]]) for x in r.stats):
            raise Mismatch("save/load nr. %d on the same location (%s): statistics differ" % (k + 1, via), observed="stale_load", fmt="result")
        if set(back.np_arrays) != set(r.np_arrays) or any(back.np_arrays[x].tobytes() != r.np_arrays[x].tobytes() for x in r.np_arrays):
            raise Mismatch("save/load nr. %d on the same location (%s): arrays differ" % (k + 1, via), observed="stale_load", fmt="result")
        if case["load_trajectories"] and set(back.trajectories) != set(trajs):
            raise Mismatch("save/load nr. %d on the same location (%s): trajectories differ" % (k + 1, via), observed="stale_load", fmt="result")
    # the same for trajectory files
    tpath = os.path.join(d, "traj.tum")
    tt = pathlib.Path(tpath) if via == "pathlib" else (os.path.relpath(tpath, os.getcwd()) if via == "relative" else tpath)
    for k, tc in enumerate(case["trajs"]):
        obj, P, Q, T = build_traj(tc, True)
        file_interface.write_tum_trajectory_file(tt, obj)
        _cmp_traj(obj, file_interface.read_tum_trajectory_file(tt), "TUM rewrite nr. %d (%s)" % (k + 1, via), True)
    return "history/" + via


def sub_bag(case):
    from rosbags.rosbag1 import Reader, Writer
    obj, P, Q, T = build_traj(case, True)
    if T[0] < 0 or T[-1] >= 2 ** 31:
        return "skipped_range"
    d = tempfile.mkdtemp(prefix="c06bag_", dir=os.getcwd())
    path = os.path.join(d, "t.bag")
    frame = case["frame"]
    topic = "/" + case["topic"]
    w = Writer(path)
    w.open()
    try:
        file_interface.write_bag_trajectory(w, obj, topic, frame)
    finally:
        w.close()
    rd = Reader(path)
    rd.open()
    try:
        back = file_interface.read_bag_trajectory(rd, topic)
    finally:
        rd.close()
    if back.num_poses != obj.num_poses:
        raise Mismatch("bag: %d poses came back as %d" % (obj.num_poses, back.num_poses), observed="count", fmt="bag")
    if not bits_equal(back.positions_xyz, obj.positions_xyz):
        raise Mismatch("bag: positions differ", observed="positions", fmt="bag")
    if not bits_equal(back.orientations_quat_wxyz, obj.orientations_quat_wxyz):
        raise Mismatch("bag: quaternions differ", observed="quaternions", fmt="bag")
    if back.meta.get("frame_id") != frame:
        raise Mismatch("bag: frame id %r came back as %r" % (frame, back.meta.get("frame_id")), observed="frame_id", fmt="bag")
    dt = np.abs(np.asarray(back.timestamps) - T)
    # one nanosecond (the statement) plus half a unit in the last place for the final rounding of sec + nanosec*1e-9
    tol = 1e-9 + 0.5 * np.spacing(T)
    if np.any(dt > tol):
        k = int(np.argmax(dt - tol))
        raise Mismatch("bag: timestamp %r came back as %r (|dt| = %.3e > 1 ns + 0.5 ulp)" % (float(T[k]), float(back.timestamps[k]), float(dt[k])),
                       observed="timestamps", fmt="bag")
    return "bag"


def sub_bag_cli(case):
    """the same export requested through 'evo_traj bag ... --ref ... --save_as_bag' (every trajectory keeps its own frame id)"""
    import glob
    from rosbags.rosbag1 import Reader, Writer
    from vf import cli
    obj, P, Q, T = build_traj(case, True)
    if T[0] < 0 or T[-1] >= 2 ** 31:
        return "skipped_range"
    d = tempfile.mkdtemp(prefix="c06bagcli_", dir=os.getcwd())
    src = os.path.join(d, "in.bag")
    topics = ["/" + case["topic"], "/" + case["topic"] + "_gt", "/other"][: 2 + (1 if case.get("three") else 0)]
    frames = [case["frame"], case["frame"] + "_ref", "map"]
    objs = [obj, PoseTrajectory3D(positions_xyz=P[::-1].copy(), orientations_quat_wxyz=Q.copy(), timestamps=T.copy()), obj]
    w = Writer(src)
    w.open()
    try:
        for tp, fr, ob in zip(topics, frames, objs):
            file_interface.write_bag_trajectory(w, ob, tp, fr)
    finally:
        w.close()

    def read(path, tps):
        rd = Reader(path)
        rd.open()
        try:
            return {tp: file_interface.read_bag_trajectory(rd, tp) for tp in tps}
        finally:
            rd.close()
    loaded = read(src, topics)
    outd = os.path.join(d, "out")
    os.makedirs(outd)
    ref_topic = topics[1]
    others = [t for t in topics if t != ref_topic]
    out = cli.run("traj", ["bag", src] + others + ["--ref", ref_topic, "--save_as_bag", "--no_warnings", "--silent"], cwd=outd)
    if out.exit_code != 0:
        raise Mismatch("evo_traj bag --save_as_bag failed: %s" % out.refused, observed="cli_failed", fmt="bag_cli")
    bags = glob.glob(os.path.join(outd, "*.bag"))
    if len(bags) != 1:
        raise Mismatch("evo_traj --save_as_bag wrote %d bag files" % len(bags), observed="no_output", fmt="bag_cli")
    back = read(bags[0], topics)
    for tp, fr in zip(topics, frames):
        a, b = loaded[tp], back[tp]
        if b.num_poses != a.num_poses or not bits_equal(b.positions_xyz, a.positions_xyz) or not bits_equal(b.orientations_quat_wxyz, a.orientations_quat_wxyz):
            raise Mismatch("evo_traj bag export: poses of topic %s differ from the loaded ones" % tp, observed="positions", fmt="bag_cli")
        if b.meta.get("frame_id") != fr:
            raise Mismatch("evo_traj bag export: topic %s (%s) has frame id %r, the loaded trajectory has %r" % (
                tp, "reference" if tp == ref_topic else "trajectory", b.meta.get("frame_id"), fr), observed="frame_id", fmt="bag_cli")
        dt = np.abs(np.asarray(b.timestamps) - np.asarray(a.timestamps))
        if np.any(dt > 1e-9 + 0.5 * np.spacing(np.asarray(a.timestamps))):
            raise Mismatch("evo_traj bag export: timestamps of topic %s moved by more than 1 ns" % tp, observed="timestamps", fmt="bag_cli")
    return "bag_cli/%d" % len(topics)


def sub_bulk(case):
    n = int(case["n"])
    rng = gen.bulk_rng(case["seed"])
    P = rng.standard_normal((n, 3)) * 10.0 ** rng.integers(-8, 8, size=(n, 1))
    Q = rng.standard_normal((n, 4))
    Q /= np.linalg.norm(Q, axis=1)[:, None]
    T = 1.5e9 + np.cumsum(rng.uniform(1e-3, 0.1, size=n))
    obj = PoseTrajectory3D(positions_xyz=P.copy(), orientations_quat_wxyz=Q.copy(), timestamps=T.copy())
    h = io.StringIO()
    file_interface.write_tum_trajectory_file(h, obj)
    h.seek(0)
    back = file_interface.read_tum_trajectory_file(h)
    _cmp_traj(obj, back, "TUM(bulk %d)" % n, True)
    h = io.StringIO()
    file_interface.write_kitti_poses_file(h, obj)
    h.seek(0)
    back = file_interface.read_kitti_poses_file(h)
    if not bits_equal(np.array(back.poses_se3), np.array(obj.poses_se3)):
        raise Mismatch("KITTI(bulk): matrices differ", observed="matrix", fmt="KITTI")
    _cmp_traj(obj, pandas_bridge.df_to_trajectory(pandas_bridge.trajectory_to_df(obj)), "DataFrame(bulk)", True)
    if case.get("via_path"):
        # the same through files on disk (str / pathlib.Path targets)
        w, r = _target("pathlib" if case["seed"] % 2 else "str", ".tum")
        file_interface.write_tum_trajectory_file(w, obj)
        _cmp_traj(obj, file_interface.read_tum_trajectory_file(r), "TUM(bulk %d, path)" % n, True)
        w, r = _target("str" if case["seed"] % 2 else "pathlib", ".kitti")
        file_interface.write_kitti_poses_file(w, obj)
        back = file_interface.read_kitti_poses_file(r)
        if back.num_poses != n or not bits_equal(np.array(back.poses_se3), np.array(obj.poses_se3)):
            raise Mismatch("KITTI(bulk %d, path): %d poses came back / matrices differ" % (n, back.num_poses), observed="matrix", fmt="KITTI")
        return "bulk/path"
    return "bulk"


st_P = st.lists(st.lists(coord, min_size=3, max_size=3), min_size=1, max_size=30)
_traj_fields = {
    "P": st_P, "rots": st.lists(gen.st_rotation, min_size=1, max_size=6),
    "t0": st.sampled_from([0.0, 1.5e9 + 0.123456789, 1403636579.763555527, 0.1, 2147483000.25]),
    "dts": st.lists(st.one_of(gen.fl(1e-9, 100.0), st.sampled_from([1e-9, 0.005, 0.1])), min_size=1, max_size=8),
    "mode": st.sampled_from(["pq", "se3"]),
    "qscale": st.one_of(st.none(), st.none(), st.lists(st.sampled_from([0.0, 3e-7, -3e-7, 8e-6, -2e-8]), min_size=1, max_size=4)),
    "pre": st.lists(st.sampled_from(["positions_xyz", "orientations_quat_wxyz", "poses_se3", "distances"]), max_size=2, unique=True),
}
st_traj = st.fixed_dictionaries(dict(_traj_fields, via=st.sampled_from(["str", "pathlib", "handle"]), timed=st.booleans()))
names = st.text(alphabet="abcdefghijklmnopqrstuvwxyzABC0123456789_-. ", min_size=1, max_size=12).filter(lambda s: s.strip(". ") == s and s.strip() != "")
st_arr = st.fixed_dictionaries({"data": st.lists(coord, min_size=0, max_size=20), "shape": st.sampled_from(["1d", "1d", "4x4", "int"])})
st_res = st.fixed_dictionaries({
    "info": st.dictionaries(st.text(min_size=1, max_size=8), st.one_of(st.text(max_size=20), st.integers(-5, 5), st.booleans()), max_size=4),
    "stats": st.dictionaries(st.sampled_from(["rmse", "mean", "median", "std", "min", "max", "sse", "x y"]), coord, max_size=8),
    "arrays": st.dictionaries(names, st_arr, max_size=3),
    "trajs": st.dictionaries(names, st.fixed_dictionaries(dict(_traj_fields, timed=st.booleans())), max_size=2),
    "via": st.sampled_from(["str", "pathlib", "handle"]),
})
st_bag = st.fixed_dictionaries(dict(_traj_fields, frame=st.text(alphabet="abcdefghijklmnopqrstuvwxyz_/0123456789", max_size=12),
                                    topic=st.text(alphabet="abcdefghijklmnopqrstuvwxyz_", min_size=1, max_size=8)))
st_bulk = st.fixed_dictionaries({"n": st.sampled_from([1000, 20000, 40000]), "seed": st.integers(0, 2 ** 32), "via_path": st.booleans()})
st_bulk_thorough = st.fixed_dictionaries({"n": st.sampled_from([1000, 20000, 40000, 100000]), "seed": st.integers(0, 2 ** 32), "via_path": st.booleans()})


def _nt(case):
    return any(_needs_digits(v) for row in case["P"] for v in row)


SUBS = [
    Sub("tum", sub_tum, st_traj, 1200, 40000, nontrivial=_nt),
    Sub("kitti", sub_kitti, st_traj, 800, 30000, nontrivial=_nt),
    Sub("dataframe", sub_df, st_traj, 600, 20000, nontrivial=_nt),
    Sub("result", sub_result, st_res, 800, 30000, nontrivial=lambda c: any(_needs_digits(v) for v in c["stats"].values()) or bool(c["trajs"])),
    Sub("bag", sub_bag, st_bag, 200, 6000, nontrivial=_nt),
    Sub("bag_cli", sub_bag_cli, st_bag, 60, 2000, nontrivial=_nt, shards_quick=4),
    Sub("history", sub_result_history, st.fixed_dictionaries({
        "results": st.lists(st_res, min_size=2, max_size=3), "via": st.sampled_from(["str", "pathlib", "relative"]), "load_trajectories": st.booleans(),
        "trajs": st.lists(st.fixed_dictionaries(dict(_traj_fields)), min_size=2, max_size=3)}), 200, 8000, nontrivial=lambda c: True),
    Sub("bulk", sub_bulk, st_bulk, 8, 0, shards_quick=8),
    Sub("bulk_path", sub_bulk, st.fixed_dictionaries({"n": st.sampled_from([40000, 70000]), "seed": st.integers(0, 2 ** 32), "via_path": st.just(True)}), 2, 12,
        shards_quick=2),
    Sub("bulk_large", sub_bulk, st_bulk_thorough, 0, 48),
]
