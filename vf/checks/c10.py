"""C10 — RPE pair selection returns exactly the pairs that realise the requested delta."""
import itertools
import math

import numpy as np
from hypothesis import strategies as st

from vf import gen, refmodel as rm, pairsel
from vf.core import Mismatch, Sub, Report
from vf.pairsel import Bad

from evo.core import filters, metrics
from evo.core.metrics import Unit

PROPERTY = "C10"
RULE = ("(i) exhaustive exact grids: 2-8 poses (quick: 2-6), integer steps {0,1,2,3} along a line x delta on the half-integer "
        "grid 0.5..max+1 x tolerance {0,1/4,1/2,1} x consecutive/all-pairs (margin 0: exact hits decided); yaw steps in "
        "multiples of pi/8 x delta at multiples and midpoints x tolerance {0,0.1,0.3} x rad/deg; frames 1..N x both modes; "
        "(ii) Hypothesis random sequences (2-30 poses; bulk to 3000) with drawn delta/tolerance incl. unsatisfiable ones; both "
        "filters.* and metrics.id_pairs_from_delta. Non-trivial = N >= 3 and (>= 1 pair or a refusal); grid cases are distinct "
        "by construction, random ones by SHA-1"
        ' Round-3 addition: the same selection through evo_rpe option handling (cli_pairs, tolerance 0 included).')
ASSUMPTIONS = ["angle decisions within 1e-9 rad of a threshold accept either outcome (exact angle hits are undecidable in float64)",
               "path decisions: exact on the integer grid; margin 1e-9 * scale for random geometry"]
UNITS = {"f": Unit.frames, "m": Unit.meters, "r": Unit.radians, "d": Unit.degrees}
PI8 = math.pi / 8


def _rotz(a):
    c, s = math.cos(a), math.sin(a)
    return np.array([[c, -s, 0.0], [s, c, 0.0], [0.0, 0.0, 1.0]])


def build_poses(case):
    if "steps" in case:
        xs = np.concatenate([[0.0], np.cumsum(np.asarray(case["steps"], dtype=float))])
        P = np.column_stack([xs, np.zeros_like(xs), np.zeros_like(xs)])
    else:
        P = np.asarray(case["P"], dtype=float) * float(case.get("mag", 1.0))
    N = len(P)
    if "yaw" in case:
        ang = np.concatenate([[0.0], np.cumsum(np.asarray(case["yaw"], dtype=float) * PI8)])
        if "steps" in case and len(ang) != N:
            ang = np.resize(ang, N)
        Rs = [_rotz(a) for a in ang[:N]]
        while len(Rs) < N:
            Rs.append(np.eye(3))
    elif "R" in case:
        Rs = [gen.rot_matrix(r) for r in case["R"]]
    else:
        Rs = [np.eye(3)] * N
    if "yaw" in case and "steps" not in case and "P" not in case:
        pass
    if case.get("int_dtype"):
        # hand-written style input: integer lattice positions, quarter-turn rotations, matrices of an INTEGER dtype
        P = np.round(P)
        Rs = [np.round(gen.rot_matrix({"quarter": [k % 4, (k // 4) % 4, (k // 16) % 4]})) for k in (list(case["int_dtype"]) * N)[:N]]
        mats = []
        for R, pp in zip(Rs, P):
            M = np.eye(4, dtype=np.int64)
            M[:3, :3] = R.astype(np.int64)
            M[:3, 3] = pp.astype(np.int64)
            mats.append(M)
        return P, Rs, mats
    return P, Rs, [rm.se3(R, p) for R, p in zip(Rs, P)]


def run_selector(poses, unit, delta, tol_rel, all_pairs, via):
    """returns (pairs or None if refused)"""
    try:
        if via == "metrics":
            return list(metrics.id_pairs_from_delta(poses, delta, UNITS[unit], tol_rel, all_pairs)), True
        if unit == "f":
            return list(filters.filter_pairs_by_index(poses, int(delta), all_pairs)), False
        if unit == "m":
            return list(filters.filter_pairs_by_path(poses, delta, delta * tol_rel, all_pairs)), False
        return list(filters.filter_pairs_by_angle(poses, delta, delta * tol_rel, unit == "d", all_pairs)), False
    except filters.FilterException:
        return None, via == "metrics"


def sub_judge(case):
    P, Rs, poses = build_poses(case)
    N = len(poses)
    unit, delta, tol_rel, all_pairs, via = case["unit"], case["delta"], float(case["tol"]), bool(case["all_pairs"]), case["via"]
    grid = case.get("grid", False)
    pairs, raises_on_empty = run_selector(poses, unit, delta, tol_rel, all_pairs, via)
    refused = pairs is None
    if unit in ("r", "d"):
        lim = math.pi if unit == "r" else 180.0
        if delta > lim or delta < 0:
            if not refused:
                raise Mismatch("angle delta %r outside [0, %r] not refused" % (delta, lim), clause="angle_bounds")
            return "refused_bounds"
    if refused and not raises_on_empty:
        raise Mismatch("low-level filter raised FilterException for an in-range delta", clause="spurious_refusal")
    if pairs is not None and len(pairs) == 0 and raises_on_empty:
        raise Mismatch("id_pairs_from_delta returned an empty list instead of FilterException", clause="empty_not_refused")
    got = [] if refused else [(int(i), int(j)) for i, j in pairs]
    try:
        if unit == "f":
            pairsel.check_frames(got, N, int(delta), all_pairs)
            amb = 0
        elif unit == "m":
            steps = rm.step_lengths(P)
            scale = max(math.fsum(steps), float(delta), 1e-300)
            margin = 0.0 if grid else 1e-9 * scale
            if all_pairs:
                amb = pairsel.check_path_all(got, steps, float(delta), float(delta) * tol_rel, margin)
            else:
                amb = pairsel.check_chain(got, steps, float(delta), margin, "path")
        else:
            d = float(delta) if unit == "r" else math.radians(float(delta))
            if all_pairs:
                amb = pairsel.check_angle_all(got, Rs, d, d * tol_rel, 1e-9)
            else:
                amb = pairsel.check_chain(got, pairsel.consecutive_angles(Rs), d, 1e-9, "angle")
    except Bad as b:
        raise Mismatch("%s [unit %s, delta %r, tol %r, %s, via %s, N=%d]; returned %s" % (
            b.msg, unit, delta, tol_rel, "all_pairs" if all_pairs else "consecutive", via, N, "FilterException" if refused else got),
            clause=b.clause, unit=unit, all_pairs=all_pairs)
    lab = "%s/%s/%s" % (unit, "all" if all_pairs else "cons", "refused" if refused else "pairs")
    return lab


def _nontrivial(case):
    n = len(case["steps"]) + 1 if "steps" in case else len(case["P"])
    return n >= 3


JUDGE = None  # set below


def _grid_report(ctx, cases_iter):
    from vf.runner import execute_case
    rep = Report()
    shard, nshards = ctx["shard"], ctx["nshards"]
    n_eval = 0
    n_nt = 0
    sample = None
    classes = {}
    for idx, case in enumerate(cases_iter):
        if idx % nshards != shard:
            continue
        inner = Report()
        v = execute_case(PROPERTY, JUDGE, case, inner, counting=True)
        n_eval += 1
        for k, c in inner.classes.items():
            classes[k] = classes.get(k, 0) + c
        for k, c in inner.known.items():
            rep.known[k] = rep.known.get(k, 0) + c
        if _nontrivial(case):
            n_nt += 1
        if sample is None:
            sample = case
        if v is not None:
            rep.violations.append(v)
            break
    rep.count_many(ctx["sub"].name, n_eval, n_nt, None, sample)
    for k, c in classes.items():
        rep.classes["%s>%s" % (ctx["sub"].name, k)] = c
    rep.exhaustive[ctx["sub"].name] = not rep.violations
    return rep


def _path_grid_cases(tier):
    maxn = 6 if tier == "quick" else 8
    for N in range(2, maxn + 1):
        for steps in itertools.product((0, 1, 2, 3), repeat=N - 1):
            total = sum(steps)
            deltas = [0.5 * k for k in range(1, 2 * total + 3)]
            for delta in deltas:
                for via in ("filters", "metrics"):
                    yield {"steps": list(steps), "unit": "m", "delta": delta, "tol": 0.0, "all_pairs": False, "via": via, "grid": True}
                    for tol in (0.0, 0.25, 0.5, 1.0):
                        yield {"steps": list(steps), "unit": "m", "delta": delta, "tol": tol, "all_pairs": True, "via": via, "grid": True}


def _angle_grid_cases(tier):
    maxn = 5 if tier == "quick" else 7
    for N in range(2, maxn + 1):
        for yaw in itertools.product((0, 1, 2, 3), repeat=N - 1):
            total = sum(yaw)
            ks = sorted(set([k for k in range(1, min(total, 8) + 1)] + [k + 0.5 for k in range(0, min(total, 8) + 1)]))
            for k in ks:
                for unit in ("r", "d"):
                    delta = k * PI8 if unit == "r" else k * 22.5
                    if k > 8:
                        continue
                    via = "metrics" if unit == "d" else "filters"
                    yield {"P": [[float(i), 0.5 * i, 0.0] for i in range(N)], "yaw": list(yaw), "unit": unit, "delta": delta, "tol": 0.0,
                           "all_pairs": False, "via": via, "grid": True}
                    for tol in (0.0, 0.1, 0.3):
                        yield {"P": [[float(i), 0.5 * i, 0.0] for i in range(N)], "yaw": list(yaw), "unit": unit, "delta": delta, "tol": tol,
                               "all_pairs": True, "via": via, "grid": True}


def _frames_grid_cases(tier):
    maxn = 12 if tier == "quick" else 40
    for N in range(1, maxn + 1):
        for delta in range(1, N + 2):
            for all_pairs in (False, True):
                for via in ("filters", "metrics"):
                    yield {"P": [[float(i), 0.0, 0.0] for i in range(N)], "unit": "f", "delta": delta, "tol": 0.1, "all_pairs": all_pairs,
                           "via": via, "grid": True}


def custom_path_grid(ctx):
    return _grid_report(ctx, _path_grid_cases(ctx["tier"]))


def custom_angle_grid(ctx):
    return _grid_report(ctx, _angle_grid_cases(ctx["tier"]))


def custom_frames_grid(ctx):
    return _grid_report(ctx, _frames_grid_cases(ctx["tier"]))


def sub_bulk(case):
    n = int(case["n"])
    rng = gen.bulk_rng(case["seed"])
    steps = rng.uniform(0, 1, size=(n, 3)) * rng.choice([0.0, 0.01, 1.0], size=(n, 1), p=[0.2, 0.3, 0.5])
    P = np.cumsum(steps, axis=0)
    yaw = np.cumsum(rng.choice([0.0, 0.01, 0.3], size=n))
    axis = gen.unit_axis(case["axis"])
    Rs = [rm.rodrigues(axis * a) for a in yaw]
    poses = [rm.se3(R, p) for R, p in zip(Rs, P)]
    unit = case["unit"]
    delta = {"f": int(case["frames"]), "m": float(case["dm"]), "r": float(case["dr"]), "d": math.degrees(float(case["dr"]))}[unit]
    pairs, _ = run_selector(poses, unit, delta, 0.1, False, "metrics")
    got = [] if pairs is None else [(int(i), int(j)) for i, j in pairs]
    try:
        if unit == "f":
            pairsel.check_frames(got, n, int(delta), False)
        elif unit == "m":
            st_ = rm.step_lengths(P)
            pairsel.check_chain(got, st_, delta, 1e-9 * max(math.fsum(st_), delta), "path")
        else:
            pairsel.check_chain(got, pairsel.consecutive_angles(Rs), float(case["dr"]), 1e-9, "angle")
    except Bad as b:
        raise Mismatch("bulk n=%d unit %s delta %r: %s" % (n, unit, delta, b.msg), clause=b.clause, unit=unit, all_pairs=False)
    return "bulk/" + unit


def sub_rpe_reuse(case):
    """the pairs an RPE object selects are those of the sequence it evaluates - also when the object is used again"""
    from evo.core.trajectory import PosePath3D
    A = dict(case["A"])
    B = dict(case["A"], P=case["PB"][: len(case["A"]["P"])] + case["A"]["P"][len(case["PB"]):])
    out = []
    rpe = metrics.RPE(metrics.PoseRelation.translation_part, A["delta"], UNITS[A["unit"]], float(A["tol"]), bool(A["all_pairs"]))
    for c in (A, B, A):
        P, Rs, poses = build_poses(c)
        path = PosePath3D(poses_se3=[p.copy() for p in poses])
        try:
            exp = [int(j) for i, j in metrics.id_pairs_from_delta(poses, c["delta"], UNITS[c["unit"]], float(c["tol"]), bool(c["all_pairs"]))]
        except filters.FilterException:
            exp = None
        try:
            rpe.process_data((path, path))
            got = [int(j) for j in rpe.delta_ids]
        except filters.FilterException:
            got = None
        if got != exp:
            raise Mismatch("RPE object (evaluation nr. %d on it) selected pair ends %s, the selector gives %s for this sequence [unit %s, delta %r]" % (
                len(out) + 1, got, exp, c["unit"], c["delta"]), clause="rpe_selection", unit=c["unit"], all_pairs=bool(c["all_pairs"]))
        out.append(got)
    return "rpe_reuse"


st_P = st.lists(st.lists(gen.unit_f, min_size=3, max_size=3), min_size=2, max_size=30)


def _mk_random(P, rots, yaw, use_yaw, mag, unit, dsel, tol, all_pairs, via, stills):
    n = len(P)
    P = [list(p) for p in P]
    for i in range(1, n):
        if stills[i % len(stills)]:
            P[i] = list(P[i - 1])
    case = {"P": P, "mag": mag, "unit": unit, "tol": tol, "all_pairs": all_pairs, "via": via}
    if use_yaw:
        case["yaw"] = (yaw * n)[: n - 1]
    else:
        case["R"] = (rots * n)[:n]
    Pn, Rs, poses = build_poses(case)
    if unit == "f":
        case["delta"] = 1 + dsel["i"] % (n + 1)
    elif unit == "m":
        acc = rm.accumulated(Pn)
        if dsel["kind"] in ("realised", "near"):
            i, j = sorted((dsel["i"] % n, dsel["j"] % n))
            v = math.fsum(rm.step_lengths(Pn)[i:j]) if j > i else acc[-1]
            if dsel["kind"] == "near":
                # just outside / inside the tolerance band: relative offsets far above the ambiguity margin (1e-9) but tiny
                v = v * (1.0 + dsel["eps"])
            case["delta"] = v if v > 0 else max(acc[-1], 1e-3) * dsel["f"]
        else:
            case["delta"] = max(acc[-1], 1e-3) * dsel["f"] * 1.5
    else:
        if dsel["kind"] in ("realised", "near"):
            i, j = sorted((dsel["i"] % n, dsel["j"] % n))
            a = rm.rot_angle_between(Rs[i], Rs[j]) if j > i else 0.5
            a = a if a > 1e-6 else 0.5
            if dsel["kind"] == "near":
                a = min(a * (1.0 + dsel["eps"]), math.pi)
        elif dsel["kind"] == "out":
            a = math.pi + 0.25
        else:
            a = dsel["f"] * math.pi
        case["delta"] = a if unit == "r" else math.degrees(a)
    return case


st_dsel = st.fixed_dictionaries({"kind": st.sampled_from(["realised", "realised", "near", "near", "free", "out"]), "i": st.integers(0, 40),
                                 "j": st.integers(0, 40), "f": gen.fl(0.01, 1.0),
                                 "eps": st.sampled_from([1e-7, -1e-7, 2e-6, -2e-6, 8e-6, -8e-6, 5e-5, -5e-5])})
st_random = st.builds(
    _mk_random, st_P, st.lists(gen.st_rotation, min_size=1, max_size=30), st.lists(st.integers(0, 5), min_size=1, max_size=30),
    st.booleans(), gen.log_uniform(-2, 4), st.sampled_from(["f", "m", "m", "r", "d"]), st_dsel, st.sampled_from([0.0, 0.0, 1e-6, 0.1, 0.5, 1.0]),
    st.booleans(), st.sampled_from(["filters", "metrics"]), st.lists(st.booleans(), min_size=1, max_size=5))

st_bulk = st.fixed_dictionaries({
    "n": st.sampled_from([300, 3000]), "seed": st.integers(0, 2 ** 32), "axis": st.lists(gen.unit_f, min_size=3, max_size=3),
    "unit": st.sampled_from(["f", "m", "r", "d"]), "frames": st.sampled_from([1, 13, 299]), "dm": st.sampled_from([0.5, 10.0, 1e4]),
    "dr": st.sampled_from([0.05, 1.0, 3.0])})

JUDGE = Sub("judge", sub_judge, st_random, 4000, 150000, nontrivial=_nontrivial, shards_quick=6)
st_int = st.fixed_dictionaries({
    "P": st.lists(st.lists(st.integers(-4, 4).map(float), min_size=3, max_size=3), min_size=2, max_size=10), "mag": st.just(1.0),
    "int_dtype": st.lists(st.integers(0, 63), min_size=1, max_size=4), "unit": st.sampled_from(["m", "m", "r", "d", "f"]),
    "delta": st.sampled_from([1.0, 1.5, 2.0, 2.5, 3.0, 90.0]), "tol": st.sampled_from([0.0, 0.1, 0.3, 0.5]), "all_pairs": st.booleans(),
    "via": st.sampled_from(["filters", "metrics"])}).map(
    lambda c: dict(c, delta=(1 if c["unit"] == "f" else (1.5707963267948966 if c["unit"] == "r" else (90.0 if c["unit"] == "d" else (c["delta"] if c["delta"] != 90.0 else 1.0))))))
JUDGE_INT = Sub("judge_int", sub_judge, st_int, 600, 20000, nontrivial=_nontrivial, shards_quick=2)
SUBS = [
    JUDGE, JUDGE_INT,
    Sub("path_grid", kind="custom", custom=custom_path_grid, n_quick=1, n_thorough=1, shards_quick=8, shards_thorough=16,
        exhaustive_tiers=("quick", "thorough")),
    Sub("angle_grid", kind="custom", custom=custom_angle_grid, n_quick=1, n_thorough=1, shards_quick=8, shards_thorough=16,
        exhaustive_tiers=("quick", "thorough")),
    Sub("frames_grid", kind="custom", custom=custom_frames_grid, n_quick=1, n_thorough=1, shards_quick=2, shards_thorough=4,
        exhaustive_tiers=("quick", "thorough")),
    Sub("bulk", sub_bulk, st_bulk, 12, 300, shards_quick=4),
    Sub("rpe_reuse", sub_rpe_reuse, st.fixed_dictionaries({"A": st_random.filter(lambda c: c["unit"] in ("m", "r", "d", "f") and not (
        c["unit"] in ("r", "d") and c["delta"] > (math.pi if c["unit"] == "r" else 180.0))), "PB": st_P}), 400, 15000, nontrivial=lambda c: True),
]


# ---- the same selection observed through evo_rpe (delta / tolerance / unit options -> id_pairs_from_delta) -------
from vf.checks import c02 as _c02
SUBS.append(Sub("cli_pairs", _c02.sub_cli, _c02.make_st_cli(unit=st.sampled_from(["f", "r", "d", "m", "m"]), all_pairs=st.sampled_from([True, True, False]),
                                                            tol=st.sampled_from([0.1, 0.5, 0.0, 1.5, 3.0]), plain=True), 600, 20000,
                nontrivial=lambda c: True, shards_quick=8))
