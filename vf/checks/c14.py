"""C14 — Plane projection puts every pose into the plane, leaves planar poses unchanged."""
import math

import numpy as np
from hypothesis import strategies as st

from vf import gen, refmodel as rm, trajgen, snapshot
from vf.core import Mismatch, Sub, Report

from evo.core import lie_algebra as lie
from evo.core.trajectory import Plane, PosePath3D, PoseTrajectory3D, TrajectoryException

PROPERTY = "C14"
RULE = ("trajectories x {xy, xz, yz}: planar poses with every heading on a 1 degree grid (quick) / 0.1 degree grid (thorough) "
        "over (-180, 180] (enumerated) plus Hypothesis-drawn headings; general 3-D poses incl. gimbal-lock attitudes, both "
        "storage modes, pre-read views, with and without timestamps. Non-trivial = non-planar input or planar with |heading| "
        "> 1 degree; distinct by SHA-1 (grid cases by construction)"
        ' Round-3 additions: drawn operations between the first and the refused second projection; --project_to_plane through evo_traj with merge/sync (cli_project).')
ASSUMPTIONS = ["'unchanged' for planar poses means within 1e-9 in every matrix entry",
               "pure rotation about the normal: |R n - n| <= 1e-12 and the two in-plane quaternion components <= 1e-12"]
NULL = {"xy": 2, "xz": 1, "yz": 0}
PLANE = {"xy": Plane.XY, "xz": Plane.XZ, "yz": Plane.YZ}


def _axis(plane):
    a = np.zeros(3)
    a[NULL[plane]] = 1.0
    return a


def check_projected(obj, P_in, T_in, plane, n, what):
    nd = NULL[plane]
    keep = [i for i in range(3) if i != nd]
    P = np.asarray(obj.positions_xyz)
    M = obj.poses_se3
    Q = np.asarray(obj.orientations_quat_wxyz)
    if obj.num_poses != n or P.shape[0] != n or len(M) != n or Q.shape[0] != n:
        raise Mismatch("%s: pose count changed by projection" % what, observed="count", plane=plane)
    if T_in is not None:
        if not np.array_equal(np.asarray(obj.timestamps), T_in):
            raise Mismatch("%s: timestamps changed by projection" % what, observed="timestamps", plane=plane)
    ax = _axis(plane)
    for k in range(n):
        Mk = np.asarray(M[k])
        if P[k][nd] != 0.0 or Mk[nd, 3] != 0.0:
            raise Mismatch("%s: out-of-plane coordinate of pose %d is %r, not 0" % (what, k, float(P[k][nd])), observed="out_of_plane", plane=plane)
        if not (np.array_equal(P[k][keep], P_in[k][keep]) and np.array_equal(Mk[keep, 3], P_in[k][keep])):
            raise Mismatch("%s: in-plane coordinates of pose %d changed: %s -> %s" % (what, k, P_in[k].tolist(), P[k].tolist()), observed="in_plane_changed", plane=plane)
        R = Mk[:3, :3]
        if float(np.abs(R @ ax - ax).max()) > 1e-12 or float(np.abs(ax @ R - ax).max()) > 1e-12:
            raise Mismatch("%s: orientation %d is not a pure rotation about the plane normal:\n%s" % (what, k, R.tolist()), observed="not_about_normal", plane=plane)
        qk = Q[k]
        for c in keep:
            if abs(qk[1 + c]) > 1e-12:
                raise Mismatch("%s: quaternion %d has an in-plane component %r" % (what, k, float(qk[1 + c])), observed="not_about_normal", plane=plane)
        if float(np.abs(rm.quat_to_R(qk) - R).max()) > 1e-9:
            raise Mismatch("%s: quaternion and matrix views of pose %d disagree after projection" % (what, k), observed="views", plane=plane)
        if not lie.is_se3(Mk) or rm.orthonormality_defect(R) > 1e-9 or np.linalg.det(R) < 0:
            raise Mismatch("%s: pose %d is not a valid rigid-body pose" % (what, k), observed="not_se3", plane=plane)
    ok, details = obj.check()
    if not ok:
        raise Mismatch("%s: evo's own check() fails after projection: %s" % (what, details), observed="check", plane=plane)


def _second_projection_refused(obj, plane):
    try:
        obj.project(PLANE[plane])
    except TrajectoryException:
        return
    raise Mismatch("second projection of the same object not refused", observed="second_not_refused", plane=plane)


def sub_general(case):
    plane = case["plane"]
    real = trajgen.realise(case["traj"])
    timed = real.T is not None
    obj = real.build(case["traj"]["pre"], timed=timed)
    sh = case.get("shared")
    if sh:
        # a second trajectory built from the very same arrays / matrices and projected first (onto another plane):
        # the projection of this one must start from the values it was created with
        if real.mode == "pq":
            kw = dict(positions_xyz=real.P.copy(), orientations_quat_wxyz=real.Q.copy())
        else:
            kw = dict(poses_se3=[T.copy() for T in real.poses])
        if timed:
            kw["timestamps"] = real.T.copy()
        # ... and the same meta dict (e.g. reference and estimate of one recording)
        kw["meta"] = {"frame_id": "map", "recording": 7}
        cls = PoseTrajectory3D if timed else PosePath3D
        other = cls(**kw)
        obj = cls(**kw)
        for v in case["traj"]["pre"]:
            getattr(other, v), getattr(obj, v)
        other.project(PLANE[sh])
        check_projected(other, real.P, real.T, sh, real.n, "projection (first of two trajectories built from the same arrays)")
    obj.project(PLANE[plane])
    check_projected(obj, real.P, real.T, plane, real.n, "projection" + (" (after a trajectory built from the same arrays was projected onto %s)" % sh if sh else ""))
    for k, other in enumerate(case["second"]):
        # "the same object": also after other operations were applied to it in between
        for op in (case.get("between") or [])[k:k + 2]:
            if op == "tl":
                obj.transform(rm.se3(rm.rodrigues(np.array([0.3, -0.2, 0.5])), np.array([1.0, 2.0, -3.0])))
            elif op == "tr":
                obj.transform(rm.se3(rm.rodrigues(np.array([0.0, 0.7, 0.1])), np.array([0.5, 0.0, 0.25])), right_mul=True)
            elif op == "scale":
                obj.scale(2.0)
            elif op == "ids" and obj.num_poses > 1:
                obj.reduce_to_ids(list(range(obj.num_poses - 1)))
            elif op == "origin":
                obj.align_origin(real.build(timed=timed))
            elif op == "read":
                obj.positions_xyz, obj.orientations_quat_wxyz, obj.poses_se3
            elif op == "meta":
                obj.meta = {"frame_id": "odom"}   # user bookkeeping replaced: still the same, already projected object
        _second_projection_refused(obj, other)
    return plane + ("/ops_between" if case.get("between") else "")


def planar_pose(plane, heading, uv, w=0.0):
    nd = NULL[plane]
    keep = [i for i in range(3) if i != nd]
    p = np.zeros(3)
    p[keep[0]], p[keep[1]] = uv
    p[nd] = w
    R = rm.rodrigues(_axis(plane) * heading)
    return rm.se3(R, p)


def sub_planar(case):
    """a pose already in the plane (position in the plane, rotation about the normal) is left unchanged"""
    plane = case["plane"]
    hs = [math.radians(h) for h in case["headings_deg"]]
    poses = [planar_pose(plane, h, (float(case["u"]) + k, float(case["v"]) - 0.5 * k)) for k, h in enumerate(hs)]
    n = len(poses)
    if case["mode"] == "se3":
        kw = dict(poses_se3=[p.copy() for p in poses])
    else:
        kw = dict(positions_xyz=np.array([p[:3, 3] for p in poses]), orientations_quat_wxyz=np.array([rm.R_to_quat(p[:3, :3]) for p in poses]))
    T = np.arange(n, dtype=float) + 10.0
    obj = PoseTrajectory3D(timestamps=T.copy(), **kw) if case["timed"] else PosePath3D(**kw)
    for v in case["pre"]:
        getattr(obj, v)
    obj.project(PLANE[plane])
    M = obj.poses_se3
    for k in range(n):
        d = float(np.abs(np.asarray(M[k]) - poses[k]).max())
        if d > 1e-9:
            h = hs[k]
            # what came out instead
            Rk = np.asarray(M[k])[:3, :3]
            a = _axis(plane)
            i, j = [(1, 2), (2, 0), (0, 1)][NULL[plane]]
            h_out = math.atan2(Rk[j, i], Rk[i, i])
            mirrored = abs(((h_out - (math.copysign(math.pi, h) - h) + math.pi) % (2 * math.pi)) - math.pi) < 1e-6
            raise Mismatch("planar pose with heading %.6f deg in the %s plane is changed by projection (max entry deviation %.3e; heading out %.6f deg)" % (
                math.degrees(h), plane, d, math.degrees(h_out)), observed="mirrored_heading" if mirrored else "changed", plane=plane,
                abs_heading_gt_90=bool(abs(math.degrees(h)) > 90.0))
    check_projected(obj, np.array([p[:3, 3] for p in poses]), T if case["timed"] else None, plane, n, "planar projection")
    return plane


def _grid_headings(tier):
    step = 1.0 if tier == "quick" else 0.1
    k = int(round(360 / step))
    return [-180.0 + step * i for i in range(1, k + 1)]


PLANAR = None


def custom_grid(ctx):
    from vf.runner import execute_case
    rep = Report()
    hs = _grid_headings(ctx["tier"])
    n_eval = n_nt = 0
    sample = None
    idx = 0
    for plane in ("xy", "xz", "yz"):
        for h in hs:
            idx += 1
            if idx % ctx["nshards"] != ctx["shard"]:
                continue
            case = {"plane": plane, "headings_deg": [h], "u": 1.5, "v": -2.25, "mode": "se3" if idx % 2 else "pq", "timed": bool(idx % 3), "pre": []}
            inner = Report()
            v = execute_case(PROPERTY, PLANAR, case, inner, counting=False)
            for kf, c in inner.known.items():
                rep.known[kf] = rep.known.get(kf, 0) + c
            n_eval += 1
            n_nt += 1 if abs(h) > 1 else 0
            sample = sample or case
            if v is not None:
                rep.violations.append(v)
                rep.count_many("planar_grid", n_eval, n_nt, None, sample)
                rep.exhaustive["planar_grid"] = False
                return rep
    rep.count_many("planar_grid", n_eval, n_nt, None, sample)
    rep.exhaustive["planar_grid"] = True
    return rep


st_general = st.integers(1, 10).flatmap(lambda n: st.fixed_dictionaries({
    "plane": st.sampled_from(["xy", "xz", "yz"]),
    "traj": trajgen.st_traj(n, stamps=True, exp_lo=-3, exp_hi=6, rot=st.one_of(gen.st_rotation, st.builds(
        lambda a, b, s: {"q": rm.R_to_quat(rm.rodrigues(np.array([0, 0, 1.0]) * a) @ rm.rodrigues(np.array([0, 1.0, 0]) * s * math.pi / 2) @ rm.rodrigues(np.array([1.0, 0, 0]) * b)).tolist()},
        gen.fl(-3.1, 3.1), gen.fl(-3.1, 3.1), st.sampled_from([1.0, -1.0])))),
    "second": st.lists(st.sampled_from(["xy", "xz", "yz"]), min_size=1, max_size=2),
    "shared": st.sampled_from([None, None, None, "xy", "xz", "yz"]),
    "between": st.lists(st.sampled_from(["tl", "tr", "scale", "ids", "origin", "read", "meta"]), max_size=3),
}))
st_planar = st.fixed_dictionaries({
    "plane": st.sampled_from(["xy", "xz", "yz"]),
    "headings_deg": st.lists(st.one_of(gen.fl(-179.999, 180.0), st.sampled_from([0.0, 90.0, -90.0, 180.0, 89.999999, 90.000001, -135.0, 45.0, 1e-9])),
                             min_size=1, max_size=6),
    "u": gen.fl(-1e3, 1e3), "v": gen.fl(-1e3, 1e3), "mode": st.sampled_from(["pq", "se3"]), "timed": st.booleans(),
    "pre": st.lists(st.sampled_from(trajgen.VIEWS), max_size=2, unique=True)})

PLANAR = Sub("planar_unchanged", sub_planar, st_planar, 1500, 60000, nontrivial=lambda c: any(abs(h) > 1 for h in c["headings_deg"]))
SUBS = [
    Sub("general", sub_general, st_general, 4000, 60000, nontrivial=lambda c: True),
    PLANAR,
    Sub("planar_grid", kind="custom", custom=custom_grid, n_quick=1, n_thorough=1, shards_quick=4, shards_thorough=16,
        exhaustive_tiers=("quick", "thorough")),
]


# ---- projection requested through evo_traj (--project_to_plane, combined with merging / synchronisation) -----------
from vf.checks import c15 as _c15
SUBS.append(Sub("cli_project", _c15.sub_traj, _c15.make_st_case(
    project=st.sampled_from(["xy", "xz", "yz"]), tf=st.none(), downsample=st.none(), mf=st.none(), n_to_align=st.just(-1)), 300, 8000,
    nontrivial=lambda c: True, shards_quick=4))
