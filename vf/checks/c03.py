"""C03 — Umeyama alignment returns a proper rotation that is least-squares optimal."""
import math

import numpy as np
from hypothesis import strategies as st

from vf import gen, refmodel as rm
from vf.core import Mismatch, Sub

from evo.core import geometry

PROPERTY = "C03"
RULE = ("Hypothesis point sets x (1-60 drawn points; bulk to 2000 from a Philox key) in classes generic / planar / "
        "nearly collinear / mirrored (best orthogonal map is a reflection) / exactly degenerate (coincident, on one "
        "coordinate axis, x or y side) / unequal shapes, magnitudes 1e-3..1e6, UTM-like offsets; y = c R x + t + noise "
        "(0..100% of extent); with and without scale. Oracle: properness, exact/extended-precision cost <= Horn's "
        "quaternion solution and <= perturbed and random competitors, reproduction of the generator, equivariance, "
        "refusal. Non-trivial = noisy or mirrored or planar; distinct by SHA-1")
ASSUMPTIONS = ["costs are compared in exact rational arithmetic when evo and Horn are within 1e-6 relative, else in 80-bit extended precision",
               "near-degenerate sets (reference sigma2 < 1e-12 absolute) may be refused or answered; the result is still judged"]

LD = np.longdouble


def cost_ld(x, y, R, t, c):
    r = y.astype(LD) - (LD(c) * (np.asarray(R, dtype=LD) @ x.astype(LD)) + np.asarray(t, dtype=LD)[:, None])
    return float(np.sum(r * r))


def noise_floor(x, y, c, cost=0.0):
    """change of a sum of squared residuals that float64 rounding of the coordinates alone can cause:
    n d^2 + 2 d sqrt(n cost) for a per-coordinate perturbation d = 64 eps max|coord|"""
    coords = max(float(np.abs(x).max()) * max(1.0, abs(float(c))), float(np.abs(y).max()), 1e-300)
    d = 64 * rm.EPS * coords
    n = x.shape[1]
    return n * d * d + 2 * d * math.sqrt(n * max(float(cost), 0.0)) + 1e-300


def build_xy(case):
    k = case["klass"]
    d = case["x"]
    pts = np.asarray(d["pts"], dtype=float).reshape(-1, 3)
    mag = float(d["mag"])
    off = np.asarray(gen.OFFSETS[d["off"]], dtype=float)
    tilt = gen.rot_matrix(case["tilt"])
    if k == "planar":
        pts = pts.copy()
        pts[:, 2] = 0.0
        x = off + mag * (pts @ tilt.T)
    elif k == "collinear_near":
        pts = pts * np.array([1.0, 1e-6, 1e-6])
        x = off + mag * (pts @ tilt.T)
    elif k in ("deg_coincident_x", "deg_coincident_y"):
        x = off + mag * pts
    elif k in ("deg_axis_x", "deg_axis_y"):
        x = off + mag * pts
    else:
        x = off + mag * pts
    x = x.T.copy()  # 3 x n
    g = case["gen"]
    R = gen.rot_matrix(g["rot"])
    c = float(g["c"]) if case["with_scale"] else 1.0
    t = np.asarray(g["t"], dtype=float) * float(g["tmag"])
    xs = x
    if k == "mirrored":
        F = np.diag([1.0, 1.0, -1.0])
        y = c * (R @ F @ (xs - xs.mean(axis=1, keepdims=True))) + t[:, None] + xs.mean(axis=1, keepdims=True)
    else:
        y = c * (R @ xs) + t[:, None]
    extent = float(np.abs(y - y.mean(axis=1, keepdims=True)).max()) if y.shape[1] else 0.0
    noise = float(case["noise"])
    if noise > 0:
        N = np.asarray(case["noise_pts"], dtype=float).reshape(-1, 3)[: x.shape[1]].T
        y = y + noise * max(extent, mag * 1e-3) * N
    # exactly degenerate classes
    if k == "deg_coincident_x":
        x = np.repeat(x[:, :1], x.shape[1], axis=1)
    elif k == "deg_coincident_y":
        y = np.repeat(y[:, :1], y.shape[1], axis=1)
    elif k == "deg_axis_x":
        ax = int(case["axis"]) % 3
        x2 = np.zeros_like(x)
        x2[ax] = mag * np.asarray(d["pts"], dtype=float).reshape(-1, 3)[:, 0]
        x = x2
    elif k == "deg_axis_y":
        ax = int(case["axis"]) % 3
        y2 = np.zeros_like(y)
        y2[ax] = mag * np.asarray(d["pts"], dtype=float).reshape(-1, 3)[:, 1]
        y = y2
    return x, y, (R, t, c)


def check_result(x, y, res, with_scale, case_label, allow_skip_opt=False):
    r, t, c = res
    r = np.asarray(r, dtype=float)
    t = np.asarray(t, dtype=float)
    if r.shape != (3, 3) or t.shape != (3,):
        raise Mismatch("result shapes %s %s" % (r.shape, t.shape), observed="shape", klass=case_label)
    if not np.all(np.isfinite(r)) or not np.all(np.isfinite(t)) or not math.isfinite(float(c)):
        raise Mismatch("non-finite result", observed="nonfinite", klass=case_label)
    defect = rm.orthonormality_defect(r)
    det = float(np.linalg.det(r))
    if defect > 1e-9:
        raise Mismatch("rotation not orthonormal: |R^T R - I| = %.3e" % defect, observed="not_orthonormal", klass=case_label)
    if det <= 0:
        raise Mismatch("improper rotation returned (det %.6f): a reflection" % det, observed="reflection", klass=case_label)
    if with_scale:
        if not float(c) > 0:
            raise Mismatch("scale %r not positive" % c, observed="scale_sign", klass=case_label)
    else:
        if not (isinstance(c, (int, float)) or isinstance(c, np.floating)) or float(c) != 1.0:
            raise Mismatch("scale %r != 1.0 exactly without scale estimation" % (c,), observed="scale_not_one", klass=case_label)
    # optimality against Horn
    Rh, th, ch, gap = rm.horn(x, y, with_scale)
    yc = y - y.mean(axis=1, keepdims=True)
    spread = float(np.sum(yc * yc))
    ce = cost_ld(x, y, r, t, c)
    chh = cost_ld(x, y, Rh, th, ch)
    slack = 1e-8 * spread + noise_floor(x, y, c, max(ce, chh))
    if ce > chh + slack:
        if abs(ce - chh) <= 1e-6 * max(ce, chh) and x.shape[1] <= 200:
            fe = rm.exact_cost(x, y, r, t, c)
            fh = rm.exact_cost(x, y, Rh, th, ch)
            bad = float(fe - fh) > slack
        else:
            bad = True
        if bad:
            raise Mismatch("not least-squares optimal: cost %.12e > cost of Horn's solution %.12e (spread %.3e)" % (ce, chh, spread),
                           observed="not_optimal", klass=case_label)
    return ce, spread, gap


def competitors(x, y, res, with_scale, case, ce, spread, label):
    """cost of evo's answer must not exceed that of perturbed / random transformations of the same class"""
    r, t, c = res
    rng = gen.bulk_rng(case["pseed"])
    slack = 1e-9 * spread + noise_floor(x, y, c, ce)
    ext = math.sqrt(spread / max(1, x.shape[1])) + 1e-300
    mx = x.mean(axis=1)
    my = y.mean(axis=1)
    for k in range(24):
        ang = 10.0 ** rng.uniform(-6, -0.5)
        ax = rng.standard_normal(3)
        ax /= np.linalg.norm(ax)
        r2 = rm.rodrigues(ax * ang) @ r
        c2 = c * (1 + rng.choice([-1, 1]) * 10.0 ** rng.uniform(-6, -1)) if (with_scale and k % 3 == 0) else c
        if k % 2:
            t2 = my - c2 * (r2 @ mx)  # optimal translation for the perturbed rotation
        else:
            t2 = t + ext * 10.0 ** rng.uniform(-6, -1) * rng.standard_normal(3)
            r2 = r if k % 4 == 0 else r2
        c_alt = cost_ld(x, y, r2, t2, c2)
        if ce > c_alt + slack:
            raise Mismatch("a perturbed transformation fits better: %.12e < %.12e" % (c_alt, ce), observed="not_optimal", klass=label)
    xc = x - mx[:, None]
    yc = y - my[:, None]
    den = float(np.sum(xc * xc))
    for k in range(12):
        q = rm.random_unit_quat(rng)
        r2 = rm.quat_to_R(q)
        c2 = float(np.sum(yc * (r2 @ xc)) / den) if (with_scale and den > 0) else 1.0
        if with_scale and c2 <= 0:
            continue
        t2 = my - c2 * (r2 @ mx)
        c_alt = cost_ld(x, y, r2, t2, c2)
        if ce > c_alt + slack:
            raise Mismatch("a random rotation with optimal t,c fits better: %.12e < %.12e" % (c_alt, ce), observed="not_optimal", klass=label)


def sub_align(case):
    x, y, (Rg, tg, cg) = build_xy(case)
    k = case["klass"]
    ws = bool(case["with_scale"])
    n = x.shape[1]
    sv, detC = rm.covariance_singular_values(x, y)
    xin, yin = x.copy(), y.copy()
    try:
        res = geometry.umeyama_alignment(x, y, ws)
    except geometry.GeometryException:
        if not (np.array_equal(x, xin) and np.array_equal(y, yin)):
            raise Mismatch("inputs modified", observed="input_modified", klass=k)
        if sv[1] > max(1e-10, 1e-11 * sv[0]) and not k.startswith("deg_"):
            raise Mismatch("refused a point set that determines the rotation (singular values %s)" % sv.tolist(),
                           observed="spurious_refusal", klass=k)
        return k + "/refused"
    if not (np.array_equal(x, xin) and np.array_equal(y, yin)):
        raise Mismatch("inputs modified", observed="input_modified", klass=k)
    if k.startswith("deg_"):
        raise Mismatch("exactly degenerate set (%s, n=%d) not refused; singular values %s" % (k, n, sv.tolist()),
                       observed="missing_refusal", klass=k)
    ce, spread, gap = check_result(x, y, res, ws, k)
    competitors(x, y, res, ws, case, ce, spread, k)
    r, t, c = res
    # noise-free, well conditioned: reproduce the generating transformation on the points
    xc = x - x.mean(axis=1, keepdims=True)
    sx = np.linalg.svd(xc, compute_uv=False)
    coords = max(float(np.abs(x).max()), float(np.abs(y).max()), 1.0)
    extent_y = math.sqrt(spread / n) if n else 0.0
    if float(case["noise"]) == 0.0 and k == "generic" and n >= 4 and sx[2] > 1e-3 * sx[0]:
        pred = c * (r @ x) + np.asarray(t)[:, None]
        err = float(np.abs(pred - y).max())
        tol = 1e-6 * extent_y + 256 * rm.EPS * coords * max(1.0, float(c))
        if err > tol:
            raise Mismatch("noise-free data: mapped points deviate by %.3e (tol %.3e)" % (err, tol), observed="not_reproduced", klass=k)
        rtol = 1e-6 + 1e3 * rm.EPS * coords / max(extent_y / max(cg, 1e-300), 1e-300)
        if float(np.abs(r - Rg).max()) > rtol:
            raise Mismatch("noise-free data: rotation differs from the generator by %.3e" % float(np.abs(r - Rg).max()),
                           observed="not_reproduced", klass=k)
        if ws and abs(c - cg) > 1e-6 * cg + rtol * cg:
            raise Mismatch("noise-free data: scale %r differs from generator %r" % (c, cg), observed="not_reproduced", klass=k)
    return k + ("/noisy" if float(case["noise"]) > 0 else "/clean")


def sub_equivariance(case):
    x, y, _ = build_xy(case)
    k = case["klass"]
    ws = bool(case["with_scale"])
    n = x.shape[1]
    try:
        r, t, c = geometry.umeyama_alignment(x, y, ws)
    except geometry.GeometryException:
        return "refused"
    sv, detC = rm.covariance_singular_values(x, y)
    s = 1.0 if detC >= 0 else -1.0
    gapratio = (sv[1] + s * sv[2]) / max(sv[0], 1e-300)
    coords = max(float(np.abs(x).max()), float(np.abs(y).max()), 1.0)
    xc = x - x.mean(axis=1, keepdims=True)
    yc = y - y.mean(axis=1, keepdims=True)
    ext = min(float(np.abs(xc).max()), float(np.abs(yc).max()))
    if gapratio < 1e-3 or ext <= 0 or abs(detC) < 1e-9 * sv[0] ** 3 and sv[2] > 1e-9 * sv[0]:
        return "not_unique"
    e = case["eq"]
    A = gen.rot_matrix(e["A"])
    A2 = gen.rot_matrix(e["A2"])
    a = float(e["a"])
    a2 = float(e["a2"]) if ws else a
    b = np.asarray(e["b"], dtype=float) * float(e["bmag"])
    b2 = np.asarray(e["b2"], dtype=float) * float(e["bmag"])
    perm = np.argsort(np.asarray(e["perm"][:n] + list(range(n - len(e["perm"][:n]))), dtype=float), kind="stable") if e["permute"] else np.arange(n)
    xn = (a * (A @ x) + b[:, None])[:, perm]
    yn = (a2 * (A2 @ y) + b2[:, None])[:, perm]
    try:
        r2, t2, c2 = geometry.umeyama_alignment(xn, yn, ws)
    except geometry.GeometryException:
        raise Mismatch("moved/scaled/permuted copy of a solvable problem was refused", observed="spurious_refusal", klass=k)
    coords2 = max(coords, float(np.abs(xn).max()), float(np.abs(yn).max()))
    noise_rel = 1e3 * rm.EPS * coords2 / (ext * min(a, a2, 1.0))
    rtol = (1e-9 + noise_rel) / gapratio
    exp_r = A2 @ r @ A.T
    dr = float(np.abs(r2 - exp_r).max())
    if dr > rtol:
        raise Mismatch("rotation is not equivariant: deviates by %.3e (tol %.3e, gap ratio %.2e)" % (dr, rtol, gapratio),
                       observed="not_equivariant", klass=k)
    if ws:
        exp_c = c * a2 / a
        if abs(c2 - exp_c) > (1e-9 + noise_rel) * exp_c * 10:
            raise Mismatch("scale is not equivariant: %r vs %r" % (c2, exp_c), observed="not_equivariant", klass=k)
    # on the points: new transform applied to new x == moved old prediction
    pred_old = c * (r @ x) + np.asarray(t)[:, None]
    exp_pts = (a2 * (A2 @ pred_old) + b2[:, None])[:, perm]
    got_pts = c2 * (r2 @ xn) + np.asarray(t2)[:, None]
    ext_y = float(np.abs(yn - yn.mean(axis=1, keepdims=True)).max())
    dp = float(np.abs(got_pts - exp_pts).max())
    ptol = rtol * ext_y * 10 + 256 * rm.EPS * coords2 * max(1.0, c2)
    if dp > ptol:
        raise Mismatch("mapped points are not equivariant: %.3e > %.3e" % (dp, ptol), observed="not_equivariant", klass=k)
    return "checked"


def sub_shapes(case):
    x, y, _ = build_xy(case)
    n = x.shape[1]
    if n < 2:
        return
    try:
        geometry.umeyama_alignment(x, y[:, : n - 1], bool(case["with_scale"]))
    except geometry.GeometryException:
        pass
    else:
        raise Mismatch("unequal shapes %s %s not refused" % (x.shape, y[:, : n - 1].shape), observed="missing_refusal", klass="unequal")
    try:
        geometry.umeyama_alignment(x[:, 1:], y, bool(case["with_scale"]))
    except geometry.GeometryException:
        pass
    else:
        raise Mismatch("unequal shapes not refused", observed="missing_refusal", klass="unequal")


def sub_bulk(case):
    n = int(case["n"])
    rng = gen.bulk_rng(case["seed"])
    mag = float(case["mag"])
    off = np.asarray(gen.OFFSETS[int(case["off"])])
    pts = rng.standard_normal((n, 3))
    if case["klass"] == "planar":
        pts[:, 2] = 0
    x = (off + mag * pts).T
    R = rm.quat_to_R(rm.random_unit_quat(rng))
    c = float(case["c"]) if case["with_scale"] else 1.0
    t = rng.standard_normal(3) * mag
    if case["klass"] == "mirrored":
        m = x.mean(axis=1, keepdims=True)
        y = c * (R @ np.diag([1.0, 1.0, -1.0]) @ (x - m)) + m + t[:, None]
    else:
        y = c * (R @ x) + t[:, None]
    y = y + float(case["noise"]) * mag * rng.standard_normal(y.shape)
    res = geometry.umeyama_alignment(x, y, bool(case["with_scale"]))
    ce, spread, gap = check_result(x, y, res, bool(case["with_scale"]), case["klass"])
    competitors(x, y, res, bool(case["with_scale"]), {"pseed": case["seed"] + 5}, ce, spread, case["klass"])
    return "bulk/" + case["klass"]


KLASSES = ["generic", "generic", "planar", "collinear_near", "mirrored", "mirrored", "deg_coincident_x", "deg_coincident_y",
           "deg_axis_x", "deg_axis_y"]


def st_case(min_n=1, max_n=60, klasses=KLASSES):
    def mk(n):
        return st.fixed_dictionaries({
            "klass": st.sampled_from(klasses),
            "x": gen.st_points(n, n),
            "tilt": gen.st_rotation_generic,
            "axis": st.integers(0, 2),
            "gen": st.fixed_dictionaries({"rot": gen.st_rotation, "c": gen.log_uniform(-3, 3),
                                          "t": st.lists(gen.unit_f, min_size=3, max_size=3), "tmag": gen.log_uniform(-3, 6)}),
            "noise": st.sampled_from([0.0, 0.0, 1e-6, 1e-3, 0.1, 1.0]),
            "noise_pts": st.lists(st.lists(gen.unit_f, min_size=3, max_size=3), min_size=n, max_size=n),
            "with_scale": st.booleans(),
            "pseed": st.integers(0, 2 ** 32),
        })
    return st.integers(min_n, max_n).flatmap(mk)


st_eq = st.fixed_dictionaries({
    "A": gen.st_rotation_generic, "A2": gen.st_rotation_generic, "a": gen.log_uniform(-2, 2), "a2": gen.log_uniform(-2, 2),
    "b": st.lists(gen.unit_f, min_size=3, max_size=3), "b2": st.lists(gen.unit_f, min_size=3, max_size=3),
    "bmag": gen.log_uniform(-2, 4), "permute": st.booleans(), "perm": st.lists(gen.unit_f, min_size=0, max_size=60)})
st_eqcase = st.tuples(st_case(3, 20, ["generic", "generic", "planar", "mirrored"]), st_eq).map(lambda t: dict(t[0], eq=t[1]))
st_bulk = st.fixed_dictionaries({
    "n": st.sampled_from([200, 2000]), "seed": st.integers(0, 2 ** 32), "mag": st.sampled_from([1e-3, 1.0, 1e3, 1e6]),
    "off": st.integers(0, 3), "klass": st.sampled_from(["generic", "planar", "mirrored"]), "c": st.sampled_from([1e-2, 1.0, 37.5]),
    "with_scale": st.booleans(), "noise": st.sampled_from([0.0, 1e-3, 0.3])})


def _nt(case):
    return float(case["noise"]) > 0 or case["klass"] in ("mirrored", "planar")


SUBS = [
    Sub("align", sub_align, st_case(1, 24), 4000, 120000, nontrivial=_nt, shards_quick=8),
    Sub("align_large", sub_align, st_case(25, 60), 200, 20000, nontrivial=_nt, shards_quick=2),
    Sub("equivariance", sub_equivariance, st_eqcase, 1500, 40000, nontrivial=_nt),
    Sub("shapes", sub_shapes, st_case(2, 10, ["generic"]), 100, 2000),
    Sub("bulk", sub_bulk, st_bulk, 24, 600, nontrivial=_nt, shards_quick=4),
]
