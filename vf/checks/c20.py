"""C20 — Plots draw the trajectory's own coordinates on the labelled axes."""
import math

import numpy as np
from hypothesis import strategies as st

from vf import gen, refmodel as rm, trajgen, cli
from vf.core import Mismatch, Sub

PROPERTY = "C20"
RULE = ("Hypothesis trajectories/paths (2-40 poses drawn, bulk 500; all coordinates pairwise distinct so that any axis swap or "
        "reordering changes the data) x 7 plot modes x length units {mm,cm,m,km} x with/without timestamps x start time {None, t0, "
        "other} x start/end markers x marker scale x correspondence edges; error arrays with/without x array, cumulative; Agg "
        "backend, artists inspected after each call (no rendering). Non-trivial = asymmetric trajectory; distinct by SHA-1"
        " Round-3 additions: another figure being pyplot's current one; x arrays with repeated and unsorted values."
        " Round-7 addition: correspondence edges with a first trajectory whose positions are int64 / float32 while the second is float64.")
ASSUMPTIONS = ["the artists' data (Line2D/Line3D data, LineCollection segments, scatter offsets, label strings, tick formatter output) "
               "is what matplotlib would draw",
               "roll/pitch/yaw: the plotted angles must reconstruct the pose's rotation in the configured (default sxyz) sequence"]
MODES = ["xy", "xz", "yx", "yz", "zx", "zy", "xyz"]
UNITS = {"mm": 1e-3, "cm": 1e-2, "m": 1.0, "km": 1e3}


def _mpl():
    import matplotlib
    matplotlib.use("Agg")
    import matplotlib.pyplot as plt
    from evo.tools import plot
    return plt, plot


def _idx(mode):
    return ["xyz".index(c) for c in mode]


def _asym(real):
    """make all coordinates pairwise distinct (deterministically)"""
    P = real.P.copy()
    n = len(P)
    flat = P.reshape(-1)
    order = np.argsort(flat, kind="stable")
    span = float(np.abs(flat).max()) + 1.0
    bump = np.zeros_like(flat)
    bump[order] = np.arange(len(flat)) * 1e-3 * span
    P = (flat + bump).reshape(n, 3)
    return trajgen.Real(P, real.Rs(), real.mode, real.T)


def _build(case):
    real = _asym(trajgen.realise(case["traj"]))
    timed = bool(case["timed"])
    obj = real.build(case["traj"]["pre"], timed=timed)
    return real, obj, timed


def _line_data(line, three_d):
    if three_d:
        x, y, z = line.get_data_3d()
        return [np.asarray(x, dtype=float), np.asarray(y, dtype=float), np.asarray(z, dtype=float)]
    return [np.asarray(line.get_xdata(), dtype=float), np.asarray(line.get_ydata(), dtype=float)]


def _eq(a, b):
    a = np.asarray(a, dtype=float)
    b = np.asarray(b, dtype=float)
    return a.shape == b.shape and np.array_equal(a, b)


def _segments(coll, three_d):
    if three_d:
        segs = getattr(coll, "_segments3d", None)
        if segs is None:
            raise Mismatch("3-D collection without 3-D segments", observed="artist")
        return [np.asarray(s, dtype=float) for s in segs]
    return [np.asarray(s, dtype=float) for s in coll.get_segments()]


def _offsets(sc, three_d):
    if three_d:
        x, y, z = sc._offsets3d
        return np.column_stack([np.asarray(x, dtype=float), np.asarray(y, dtype=float), np.asarray(z, dtype=float)])
    return np.asarray(sc.get_offsets(), dtype=float)


def _check_labels(ax, mode, unit, what):
    names = list(mode)
    got = [ax.get_xlabel(), ax.get_ylabel()] + ([ax.get_zlabel()] if mode == "xyz" else [])
    for g, nm in zip(got, names):
        exp = "$%s$ (%s)" % (nm, unit)
        if g != exp:
            raise Mismatch("%s: axis label %r, the mode %s and unit %s name %r" % (what, g, mode, unit, exp), observed="label", mode=mode)
    if unit != "m":
        axes = [ax.xaxis, ax.yaxis] + ([ax.zaxis] if mode == "xyz" else [])
        for a in axes:
            s = a.get_major_formatter()(1.0, 0)
            exp = "{0:g}".format(1.0 / UNITS[unit])
            if s != exp:
                raise Mismatch("%s: tick formatter shows 1 m as %r, expected %r %s" % (what, s, exp, unit), observed="tick_unit", mode=mode)


def sub_traj(case):
    plt, plot = _mpl()
    from evo.core.metrics import Unit
    cli.reset_state()
    real, obj, timed = _build(case)
    mode = case["mode"]
    unit = case["unit"]
    three_d = mode == "xyz"
    idx = _idx(mode)
    fig = plt.figure()
    if case.get("other_fig"):
        plt.figure()   # a different figure is pyplot's current one while this one is drawn on
    try:
        ax = plot.prepare_axis(fig, plot.PlotMode[mode], length_unit=Unit(unit))
        _check_labels(ax, mode, unit, "prepare_axis")
        n_lines0 = len(ax.lines)
        plot.traj(ax, plot.PlotMode[mode], obj, style=case["style"], color="blue", label="t", plot_start_end_markers=case["markers"])
        lines = ax.lines[n_lines0:]
        if len(lines) != 1:
            raise Mismatch("traj() drew %d lines" % len(lines), observed="artist", mode=mode)
        data = _line_data(lines[0], three_d)
        for k, (d, i) in enumerate(zip(data, idx)):
            if not _eq(d, real.P[:, i]):
                which = [j for j in range(3) if _eq(d, real.P[:, j])]
                raise Mismatch("traj() in mode %s: data of plot axis %d is not the trajectory's %s coordinates in pose order%s" % (
                    mode, k, "xyz"[i], (" (it is the %s coordinate)" % "xyz"[which[0]]) if which else ""), observed="line_data", mode=mode)
        if case["markers"]:
            scs = [c for c in ax.collections]
            if len(scs) != 2:
                raise Mismatch("start/end markers: %d scatter artists" % len(scs), observed="artist", mode=mode)
            for sc, pose, nm in ((scs[0], real.P[0], "start"), (scs[1], real.P[-1], "end")):
                off = _offsets(sc, three_d)
                if off.shape[0] != 1 or not _eq(off[0], pose[idx]):
                    raise Mismatch("%s marker at %s, the %s pose is at %s in mode %s" % (nm, off.tolist(), nm, pose[idx].tolist(), mode),
                                   observed="marker", mode=mode)
        _check_labels(ax, mode, unit, "after traj()")
    finally:
        plt.close("all")
    return "traj/" + mode


def sub_colormap(case):
    plt, plot = _mpl()
    cli.reset_state()
    real, obj, timed = _build(case)
    if case.get("standstill") and real.n >= 3:
        # a stationary stretch (and a move along one axis only): consecutive poses share plotted coordinates
        P = real.P.copy()
        j = real.n // 2
        P[j] = P[j - 1]
        if real.n >= 4:
            P[-1] = P[-2] + np.array([0.0, 0.0, 1.0])
        real = trajgen.Real(P, real.Rs(), real.mode, real.T)
        obj = real.build(case["traj"]["pre"], timed=timed)
    other = trajgen.Real(real.P[::-1] * 1.5 + 0.25, real.Rs(), real.mode, real.T).build(timed=timed)
    mode = case["mode"]
    three_d = mode == "xyz"
    idx = _idx(mode)
    n = real.n
    err = np.abs(np.sin(np.arange(n, dtype=float) * 1.3)) + 0.1
    fig = plt.figure()
    if case.get("other_fig"):
        plt.figure()   # a different figure is pyplot's current one while this one is drawn on
    try:
        ax = plot.prepare_axis(fig, plot.PlotMode[mode])
        plot.traj_colormap(ax, obj, err, plot.PlotMode[mode], min_map=float(err.min()), max_map=float(err.max()), fig=fig,
                           plot_start_end_markers=case["markers"])
        colls = [c for c in ax.collections if c.__class__.__name__ in ("LineCollection", "Line3DCollection")]
        if len(colls) != 1:
            raise Mismatch("traj_colormap drew %d line collections" % len(colls), observed="artist", mode=mode)
        segs = _segments(colls[0], three_d)
        if len(segs) != n - 1:
            raise Mismatch("colour-mapped line has %d segments for %d poses" % (len(segs), n), observed="segments", mode=mode)
        for k, s in enumerate(segs):
            if not (_eq(s[0], real.P[k][idx]) and _eq(s[1], real.P[k + 1][idx])):
                raise Mismatch("colour-mapped segment %d joins %s, poses %d and %d are at %s / %s in mode %s" % (
                    k, s.tolist(), k, k + 1, real.P[k][idx].tolist(), real.P[k + 1][idx].tolist(), mode), observed="segments", mode=mode)
        if case["markers"]:
            scs = [c for c in ax.collections if c.__class__.__name__ in ("PathCollection", "Path3DCollection")]
            if len(scs) != 2 or not _eq(_offsets(scs[0], three_d)[0], real.P[0][idx]) or not _eq(_offsets(scs[1], three_d)[0], real.P[-1][idx]):
                raise Mismatch("start/end markers of the colour-mapped trajectory are not at the first/last pose", observed="marker", mode=mode)
        # coordinate frame markers
        ncoll = len(ax.collections)
        scale = float(case["scale"])
        plot.draw_coordinate_axes(ax, obj, plot.PlotMode[mode], scale)
        new = ax.collections[ncoll:]
        if scale <= 0:
            if new:
                raise Mismatch("coordinate axes drawn for marker scale %r" % scale, observed="artist", mode=mode)
        else:
            if len(new) != 1:
                raise Mismatch("draw_coordinate_axes added %d collections" % len(new), observed="artist", mode=mode)
            segs = _segments(new[0], three_d)
            if len(segs) != 3 * n:
                raise Mismatch("coordinate axes: %d segments for %d poses" % (len(segs), n), observed="segments", mode=mode)
            M = obj.poses_se3
            tol = 1e-9 * (float(np.abs(real.P).max()) + scale)
            for a in range(3):
                for k in range(n):
                    s = segs[a * n + k]
                    tip = real.P[k] + scale * np.asarray(M[k])[:3, a]
                    if float(np.abs(s[0] - real.P[k][idx]).max()) > tol or float(np.abs(s[1] - tip[idx]).max()) > tol:
                        raise Mismatch("coordinate-frame marker (axis %s of pose %d) runs %s, expected from %s to %s" % (
                            "xyz"[a], k, s.tolist(), real.P[k][idx].tolist(), tip[idx].tolist()), observed="frame_marker", mode=mode)
        # correspondence edges
        ncoll = len(ax.collections)
        plot.draw_correspondence_edges(ax, obj, other, plot.PlotMode[mode])
        new = ax.collections[ncoll:]
        segs = _segments(new[0], three_d) if len(new) == 1 else []
        if len(segs) != n:
            raise Mismatch("correspondence edges: %d segments for %d pose pairs" % (len(segs), n), observed="segments", mode=mode)
        P2 = np.asarray(other.positions_xyz)
        for k, s in enumerate(segs):
            if not (_eq(s[0], real.P[k][idx]) and _eq(s[1], P2[k][idx])):
                raise Mismatch("correspondence edge %d joins %s, the poses are at %s and %s" % (k, s.tolist(), real.P[k][idx].tolist(), P2[k][idx].tolist()),
                               observed="edges", mode=mode)
        # first trajectory with positions of another dtype (integer map coordinates, float32 from a driver) than the second one
        ed = case.get("edge_dtype", "f8")
        if ed != "f8":
            from evo.core import trajectory as evo_traj_mod
            P1 = np.round(real.P * 4.0).astype(np.int64) if ed == "i8" else real.P.astype(np.float32)
            first = evo_traj_mod.PosePath3D(positions_xyz=P1, orientations_quat_wxyz=np.array(obj.orientations_quat_wxyz, dtype=float))
            ncoll = len(ax.collections)
            plot.draw_correspondence_edges(ax, first, other, plot.PlotMode[mode])
            new = ax.collections[ncoll:]
            segs = _segments(new[0], three_d) if len(new) == 1 else []
            if len(segs) != n:
                raise Mismatch("correspondence edges (%s positions): %d segments for %d pose pairs" % (ed, len(segs), n), observed="segments", mode=mode)
            P1f = np.asarray(P1, dtype=float)
            for k, s in enumerate(segs):
                if not (_eq(s[0], P1f[k][idx]) and _eq(s[1], P2[k][idx])):
                    raise Mismatch("correspondence edge %d (first trajectory with %s positions) joins %s, the poses are at %s and %s" % (
                        k, ed, s.tolist(), P1f[k][idx].tolist(), P2[k][idx].tolist()), observed="edges_dtype", mode=mode)
    finally:
        plt.close("all")
    return "colormap/" + mode


def _euler_recon(roll, pitch, yaw):
    Rx = rm.rodrigues(np.array([1.0, 0, 0]) * roll)
    Ry = rm.rodrigues(np.array([0, 1.0, 0]) * pitch)
    Rz = rm.rodrigues(np.array([0, 0, 1.0]) * yaw)
    return Rz @ Ry @ Rx


def sub_time_series(case):
    plt, plot = _mpl()
    from evo.core.metrics import Unit
    cli.reset_state()
    real, obj, timed = _build(case)
    n = real.n
    unit = case["unit"]
    st_sel = case["start"]
    start = None
    if timed and st_sel == "t0":
        start = float(real.T[0])
    elif timed and st_sel == "other":
        start = float(real.T[0]) - 12.5
    elif timed and st_sel == "zero":
        start = 0.0   # a clock that starts at zero: the given start time is exactly 0
    x_exp = (real.T - start if start else real.T) if timed else np.arange(n, dtype=float)
    try:
        fig, axarr = plt.subplots(3)
        plot.traj_xyz(axarr, obj, start_timestamp=start, length_unit=Unit(unit))
        for i in range(3):
            ln = axarr[i].lines
            if len(ln) != 1:
                raise Mismatch("traj_xyz: %d lines in subplot %d" % (len(ln), i), observed="artist")
            if not _eq(ln[0].get_ydata(), real.P[:, i]):
                raise Mismatch("traj_xyz: subplot %d does not show the %s coordinate" % (i, "xyz"[i]), observed="xyz_data", axis=i)
            if not _eq(ln[0].get_xdata(), x_exp):
                raise Mismatch("traj_xyz: x data is not %s" % ("timestamps - start" if timed else "the pose index"), observed="time_axis")
            exp_lab = "$%s$ (%s)" % ("xyz"[i], unit)
            if axarr[i].get_ylabel() != exp_lab:
                raise Mismatch("traj_xyz: label %r, expected %r" % (axarr[i].get_ylabel(), exp_lab), observed="label")
            if unit != "m":
                s = axarr[i].yaxis.get_major_formatter()(1.0, 0)
                if s != "{0:g}".format(1.0 / UNITS[unit]):
                    raise Mismatch("traj_xyz: tick formatter shows 1 m as %r %s" % (s, unit), observed="tick_unit")
        if axarr[2].get_xlabel() != ("$t$ (s)" if timed else "index"):
            raise Mismatch("traj_xyz: x label %r" % axarr[2].get_xlabel(), observed="label")
        fig2, axarr2 = plt.subplots(3)
        plot.traj_rpy(axarr2, obj, start_timestamp=start)
        ang = []
        for i in range(3):
            ln = axarr2[i].lines
            if len(ln) != 1 or not _eq(ln[0].get_xdata(), x_exp):
                raise Mismatch("traj_rpy: x data is not %s" % ("timestamps - start" if timed else "the pose index"), observed="time_axis")
            ang.append(np.asarray(ln[0].get_ydata(), dtype=float))
            if axarr2[i].get_ylabel() != ["$roll$ (deg)", "$pitch$ (deg)", "$yaw$ (deg)"][i]:
                raise Mismatch("traj_rpy: label %r" % axarr2[i].get_ylabel(), observed="label")
        Rs = real.Rs()
        for k in range(n):
            if any(len(a) != n for a in ang):
                raise Mismatch("traj_rpy: %d values for %d poses" % (len(ang[0]), n), observed="rpy_data")
            R = _euler_recon(math.radians(ang[0][k]), math.radians(ang[1][k]), math.radians(ang[2][k]))
            if float(np.abs(R - Rs[k]).max()) > 1e-7:
                raise Mismatch("traj_rpy: roll/pitch/yaw (%.6f, %.6f, %.6f) deg plotted for pose %d do not describe its orientation" % (
                    ang[0][k], ang[1][k], ang[2][k], k), observed="rpy_data")
        # history: the same object plotted again after an in-place operation shows its CURRENT orientation / coordinates
        M = rm.se3(rm.rodrigues(np.array([0.3, -0.5, 0.8])), np.array([1.0, -2.0, 0.5]))
        obj.transform(M.copy())
        real = real.left(M)
        fig4, axarr4 = plt.subplots(3)
        plot.traj_rpy(axarr4, obj, start_timestamp=start)
        Rs2 = real.Rs()
        for k in range(n):
            a = [float(axarr4[i].lines[0].get_ydata()[k]) for i in range(3)]
            R = _euler_recon(math.radians(a[0]), math.radians(a[1]), math.radians(a[2]))
            if float(np.abs(R - Rs2[k]).max()) > 1e-7:
                raise Mismatch("traj_rpy after an in-place transform(): plotted angles of pose %d do not describe its current orientation (second plot of the same object)" % k,
                               observed="rpy_stale")
        fig5, axarr5 = plt.subplots(3)
        plot.traj_xyz(axarr5, obj, start_timestamp=start)
        for i in range(3):
            if float(np.abs(np.asarray(axarr5[i].lines[0].get_ydata(), dtype=float) - real.P[:, i]).max()) > 1e-9 * (1 + float(np.abs(real.P).max())):
                raise Mismatch("traj_xyz after an in-place transform(): subplot %d does not show the current %s coordinates" % (i, "xyz"[i]), observed="xyz_stale")
            if not _eq(axarr5[i].lines[0].get_xdata(), x_exp):
                raise Mismatch("second plot of the same trajectory: x data is not %s" % ("timestamps - start" if timed else "the pose index"), observed="time_axis")
        if timed and n >= 2:
            fig3 = plt.figure()
            ax = fig3.gca()
            plot.speeds(ax, obj, start_timestamp=start)
            ln = ax.lines
            steps = rm.step_lengths(real.P)
            v = np.array([steps[i] / float(real.T[i + 1] - real.T[i]) for i in range(n - 1)])
            if len(ln) != 1 or not _eq(ln[0].get_xdata(), x_exp[1:]):
                raise Mismatch("speeds: x data is not the stamps of the newer poses (shifted by the start time)", observed="time_axis")
            got = np.asarray(ln[0].get_ydata(), dtype=float)
            if got.shape != v.shape or float(np.abs(got - v).max()) > 1e-9 * (float(np.abs(v).max()) + 1e-300):
                raise Mismatch("speeds: plotted values are not |dp|/dt", observed="speed_data")
    finally:
        plt.close("all")
    return "series/" + ("timed/" + st_sel if timed else "index")


def sub_error_array(case):
    plt, plot = _mpl()
    cli.reset_state()
    vals = np.asarray(case["vals"], dtype=float)
    x = None if case["x"] is None else np.cumsum(np.abs(np.asarray((case["x"] * len(vals))[: len(vals)], dtype=float)) + 0.01)
    if x is not None and case.get("xkind") == "repeats":
        # e.g. distances from start with standstills: equal x values follow each other
        x = np.floor(x)
    elif x is not None and case.get("xkind") == "free":
        # any x array is shown as given (not sorted, nothing dropped)
        x = np.asarray((case["x"] * len(vals))[: len(vals)], dtype=float)
    try:
        fig = plt.figure()
        ax = fig.gca()
        plot.error_array(ax, vals, x_array=x, cumulative=case["cumulative"], statistics={"mean": float(vals.mean())} if case["stats"] else None,
                         name="err", xlabel="xl")
        ln = [l for l in ax.lines if len(l.get_xdata()) == len(vals)]
        if not ln:
            raise Mismatch("error_array drew no line with one point per value", observed="artist")
        y_exp = np.cumsum(vals) if case["cumulative"] else vals
        x_exp = x if x is not None else np.arange(len(vals), dtype=float)
        if not _eq(ln[0].get_ydata(), y_exp):
            raise Mismatch("error_array: y data is not the %svalues in order" % ("cumulated " if case["cumulative"] else ""), observed="error_data")
        if not _eq(ln[0].get_xdata(), x_exp):
            raise Mismatch("error_array: x data is not the given x array / index", observed="error_x")
    finally:
        plt.close("all")
    return "error_array"


def sub_trajectories(case):
    plt, plot = _mpl()
    from evo.core.metrics import Unit
    cli.reset_state()
    real, obj, timed = _build(case)
    real2 = trajgen.Real(real.P * 0.5 - 1.0, real.Rs(), real.mode, real.T)
    obj2 = real2.build(timed=timed)
    mode = case["mode"]
    idx = _idx(mode)
    three_d = mode == "xyz"
    kind = case["container"]
    arg = {"single": obj, "list": [obj, obj2], "dict": {"a": obj, "b": obj2}}[kind]
    exp = [real] if kind == "single" else [real, real2]
    try:
        fig = plt.figure()
        if case.get("other_fig"):
            plt.figure()
        if case["use_axes"]:
            ax = plot.prepare_axis(fig, plot.PlotMode[mode], length_unit=Unit(case["unit"]))
            plot.trajectories(ax, arg, plot.PlotMode[mode], plot_start_end_markers=case["markers"])
        else:
            plot.trajectories(fig, arg, plot.PlotMode[mode], plot_start_end_markers=case["markers"], length_unit=Unit(case["unit"]))
            ax = fig.axes[0]
        _check_labels(ax, mode, case["unit"], "trajectories()")
        if len(ax.lines) != len(exp):
            raise Mismatch("trajectories() drew %d lines for %d inputs" % (len(ax.lines), len(exp)), observed="artist", mode=mode)
        for ln, r in zip(ax.lines, exp):
            data = _line_data(ln, three_d)
            for d, i in zip(data, idx):
                if not _eq(d, r.P[:, i]):
                    raise Mismatch("trajectories(): a line does not show its input's %s coordinates in mode %s" % ("xyz"[i], mode), observed="line_data", mode=mode)
        if case["markers"]:
            # every trajectory gets a start and an end marker at its OWN first / last position
            offs = [_offsets(sc, three_d) for sc in ax.collections]
            pts = np.array([o[0] for o in offs if o.shape[0] == 1]).reshape(-1, len(idx))
            if len(pts) != 2 * len(exp):
                raise Mismatch("trajectories(): %d start/end markers for %d trajectories" % (len(pts), len(exp)), observed="artist", mode=mode)
            for r in exp:
                for nm, pose in (("start", r.P[0]), ("end", r.P[-1])):
                    if not any(_eq(pt, pose[idx]) for pt in pts):
                        raise Mismatch("trajectories(): no %s marker at %s, the %s position of one of the inputs (markers at %s) in mode %s" % (
                            nm, pose[idx].tolist(), nm, pts.tolist(), mode), observed="marker", mode=mode)
    finally:
        plt.close("all")
    return "trajectories/" + kind


def _st_plot(min_n, max_n):
    return st.integers(min_n, max_n).flatmap(lambda n: st.fixed_dictionaries({
        "traj": trajgen.st_traj(n, stamps=True, exp_lo=-2, exp_hi=4), "timed": st.booleans(), "mode": st.sampled_from(MODES),
        "unit": st.sampled_from(["mm", "cm", "m", "km"]), "markers": st.booleans(), "style": st.sampled_from(["-", "--", "o"]),
        "scale": st.sampled_from([0.0, 0.1, 2.5]), "start": st.sampled_from(["none", "t0", "other", "zero"]),
        "container": st.sampled_from(["single", "list", "dict"]), "use_axes": st.booleans(), "standstill": st.booleans(),
        "other_fig": st.sampled_from([False, False, True]), "edge_dtype": st.sampled_from(["f8", "i8", "f4"])}))


st_err = st.fixed_dictionaries({"vals": st.lists(gen.fl(0.0, 1e3), min_size=1, max_size=50), "x": st.one_of(st.none(), st.lists(gen.fl(-5, 5), min_size=1, max_size=5)),
                                "cumulative": st.booleans(), "stats": st.booleans(), "xkind": st.sampled_from(["increasing", "repeats", "free"])})
st_bulk = st.fixed_dictionaries({
    "traj": st.just(None), "seed": st.integers(0, 2 ** 32)})

SUBS = [
    Sub("traj", sub_traj, _st_plot(2, 40), 250, 10000, nontrivial=lambda c: True, shards_quick=4),
    Sub("colormap_markers_edges", sub_colormap, _st_plot(2, 16), 160, 8000, nontrivial=lambda c: True, shards_quick=4),
    Sub("time_series", sub_time_series, _st_plot(2, 30), 200, 8000, nontrivial=lambda c: True, shards_quick=4),
    Sub("error_array", sub_error_array, st_err, 200, 5000, nontrivial=lambda c: len(c["vals"]) >= 2, shards_quick=2),
    Sub("trajectories", sub_trajectories, _st_plot(2, 12), 120, 5000, nontrivial=lambda c: True, shards_quick=2),
]
