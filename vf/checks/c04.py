"""C04 — Trajectory alignment applies exactly the returned transform, never worsens the fit."""
import math

import numpy as np
from hypothesis import strategies as st

from vf import gen, refmodel as rm, trajgen, snapshot
from vf.core import Mismatch, Sub
from vf.checks.c03 import cost_ld, noise_floor

from evo.core import geometry, metrics, lie_algebra as lie
from evo import main_ape, main_rpe

PROPERTY = "C04"
RULE = ("Hypothesis synchronized pairs (3-24 poses drawn, bulk 2000): estimate = similarity image of the reference "
        "(scale ratio 1e-2..1e2) plus noise 0..100% of extent, both storage modes with pre-read views, mode in "
        "{rigid, similarity, scale-only, origin}, n in {-1, 3..N}; plus ape()/rpe() with every combination of "
        "{align, correct_scale, align_origin, n_to_align}. Non-trivial = noise > 0 or n < N or scale != 1; distinct by SHA-1"
        ' Round-3 additions: CLI-style scale-only call (both flags), n_to_align through ape()/rpe() with garbage beyond n, origin alignment of geo-referenced (1e3..1e7 m) nearly coincident starts.')
ASSUMPTIONS = ["RMSE comparisons in 80-bit extended precision with a float64 noise floor",
               "idempotence and parameter comparisons only for well-conditioned cases (reference singular-value gap ratio > 1e-3)"]


def build(case):
    ref = trajgen.realise(case["ref"])
    g = case["gen"]
    R = gen.rot_matrix(g["rot"])
    c = float(g["c"])
    ext = float(np.abs(ref.P - ref.P.mean(axis=0)).max()) + 1e-300
    t = np.asarray(g["t"], dtype=float) * ext * float(g["trel"])
    free = trajgen.realise(case["est"])
    noise = float(case["noise"])
    Pn = np.asarray(case["est"]["pos"]["pts"], dtype=float)
    P = (c * (R @ ref.P.T)).T + t + noise * ext * c * Pn
    est = trajgen.Real(P, free.Rs(), case["est"]["mode"])
    return ref, est


def _apply_ref(est, r, t, s, mode):
    """reference application of the returned parameters"""
    if mode in ("scale", "scale_both"):
        return [rm.se3(T[:3, :3], s * T[:3, 3]) for T in est.poses]
    return [rm.se3(r @ T[:3, :3], s * (r @ T[:3, 3]) + t) for T in est.poses]


def _views_consistent(obj, poses, ptol, what):
    P = np.asarray(obj.positions_xyz)
    M = obj.poses_se3
    Q = np.asarray(obj.orientations_quat_wxyz)
    if len(M) != len(poses) or P.shape[0] != len(poses) or Q.shape[0] != len(poses):
        raise Mismatch("%s: pose count changed" % what, observed="count")
    for k, T in enumerate(poses):
        if float(np.abs(P[k] - T[:3, 3]).max()) > ptol:
            raise Mismatch("%s: position %d is %s, returned transform gives %s" % (what, k, P[k].tolist(), T[:3, 3].tolist()),
                           observed="position")
        if float(np.abs(M[k][:3, 3] - T[:3, 3]).max()) > ptol:
            raise Mismatch("%s: matrix translation %d differs from the returned transform's" % (what, k), observed="position_se3")
        if float(np.abs(M[k][:3, :3] - T[:3, :3]).max()) > 1e-9:
            raise Mismatch("%s: orientation %d is not R*R_p of the returned rotation" % (what, k), observed="orientation")
        Rq = rm.quat_to_R(Q[k])
        if float(np.abs(Rq - T[:3, :3]).max()) > 1e-9:
            raise Mismatch("%s: quaternion %d does not describe R*R_p" % (what, k), observed="orientation_quat")
        if not np.array_equal(M[k][3], [0.0, 0.0, 0.0, 1.0]):
            raise Mismatch("%s: bottom row of pose %d" % (what, k), observed="bottom_row")


def _mode_args(mode):
    # "scale_both": the way the command line tools ask for the scale-only correction
    return {"rigid": (False, False), "similarity": (True, False), "scale": (False, True), "scale_both": (True, True)}[mode]


def _n_of(case, N):
    n = case["n"]
    if n == -1:
        return -1
    return 3 + int(n) % (N - 2)


def sub_align(case):
    ref, est = build(case)
    mode = case["mode"]
    N = ref.n
    n = _n_of(case, N)
    used = N if n == -1 else n
    ro = ref.build(case["ref"]["pre"])
    eo = est.build(case["est"]["pre"])
    if case.get("share_mats") and ref.mode == "se3" and est.mode == "se3" and N >= 4:
        # the estimate was derived from the reference's pose list: its first poses ARE the reference's matrix objects
        # (e.g. list(ref.poses_se3) with later poses replaced by drifted ones)
        from evo.core.trajectory import PosePath3D
        k = max(1, N // 3)
        ref_mats = [T.copy() for T in ref.poses]
        ro = PosePath3D(poses_se3=ref_mats)
        eo = PosePath3D(poses_se3=list(ref_mats[:k]) + [T.copy() for T in est.poses[k:]])
        est = trajgen.Real(np.vstack([ref.P[:k], est.P[k:]]), ref.Rs()[:k] + est.Rs()[k:], "se3")
    if case.get("int_pos") and est.mode == "pq" and not case.get("share_mats"):
        # positions given as an integer array (e.g. integer millimetres): the alignment still works in floating point
        from evo.core.trajectory import PosePath3D
        f = 1000.0 / max(float(np.abs(est.P).max()), float(np.abs(ref.P).max()), 1e-300)
        Pi = np.round(est.P * f).astype(np.int64)
        est = trajgen.Real(Pi.astype(float), est.Rs(), "pq")
        ref = trajgen.Real(ref.P * f, ref.Rs(), ref.mode)
        ro = ref.build(case["ref"]["pre"])
        eo = PosePath3D(positions_xyz=Pi, orientations_quat_wxyz=est.Q.copy())
        for v in case["est"]["pre"]:
            getattr(eo, v)
    sref = snapshot.snapshot(ro)
    cs, cos = _mode_args(mode)
    try:
        r, t, s = eo.align(ro, correct_scale=cs, correct_only_scale=cos, n=n)
    except geometry.GeometryException:
        sv, _ = rm.covariance_singular_values(est.P[:used].T, ref.P[:used].T)
        if sv[1] > max(1e-10, 1e-11 * sv[0]):
            raise Mismatch("alignment refused although the first %d positions determine it" % used, observed="spurious_refusal")
        return "refused"
    d = snapshot.diff(sref, ro)
    if d:
        raise Mismatch("reference trajectory modified by align(): %s" % d, observed="reference_modified")
    r = np.asarray(r, dtype=float)
    t = np.asarray(t, dtype=float)
    s = float(s)
    coords = max(float(np.abs(est.P).max()) * max(1.0, s), float(np.abs(ref.P).max()), 1.0)
    ptol = 256 * rm.EPS * coords
    # S1 effect = returned transform
    if mode in ("rigid",) and s != 1.0:
        raise Mismatch("rigid alignment returned scale %r" % s, observed="scale_not_one")
    exp = _apply_ref(est, r, t, s, mode)
    _views_consistent(eo, exp, ptol, "after %s alignment" % mode)
    if mode in ("scale", "scale_both"):
        # nothing but the positions may change
        M = eo.poses_se3
        fresh = est.build()
        M0 = fresh.poses_se3
        for k in range(est.n):
            if not np.array_equal(M[k][:3, :3], M0[k][:3, :3]):
                raise Mismatch("scale-only alignment changed orientation %d" % k, observed="orientation")
        if not np.array_equal(np.asarray(eo.orientations_quat_wxyz), np.asarray(fresh.orientations_quat_wxyz)):
            raise Mismatch("scale-only alignment changed the quaternions", observed="orientation")
    # S2 only the first n pairs matter
    if n != -1 and n < N:
        rng = gen.bulk_rng(case["pseed"])
        ref_g = trajgen.Real(np.vstack([ref.P[:n], rng.standard_normal((N - n, 3)) * 1e3]), ref.Rs(), ref.mode)
        est_g = trajgen.Real(np.vstack([est.P[:n], rng.standard_normal((N - n, 3)) * 1e3]), est.Rs(), est.mode)
        r2, t2, s2 = est_g.build().align(ref_g.build(), correct_scale=cs, correct_only_scale=cos, n=n)
        if not (np.array_equal(r, r2) and np.array_equal(t, t2) and s == float(s2)):
            raise Mismatch("alignment with n=%d depends on poses beyond the first n" % n, observed="uses_more_than_n")
    # Horn on the used pairs; S4 fit
    x = est.P[:used].T
    y = ref.P[:used].T
    ws = mode in ("similarity", "scale", "scale_both")
    if mode in ("rigid", "similarity"):
        Rh, th, ch, gap = rm.horn(x, y, ws)
        yc = y - y.mean(axis=1, keepdims=True)
        spread = float(np.sum(yc * yc))
        before = cost_ld(x, y, np.eye(3), np.zeros(3), 1.0)
        after_params = cost_ld(x, y, r, t, s)
        got = np.asarray(eo.positions_xyz)[:used].T
        after_real = float(np.sum((got.astype(np.longdouble) - y.astype(np.longdouble)) ** 2))
        floor = noise_floor(x, y, s, max(before, after_real)) * 4
        slack = 1e-8 * spread + floor
        if after_real > before * (1 + 1e-9) + slack:
            raise Mismatch("RMSE over the used poses got worse: %.6e -> %.6e" % (math.sqrt(before / used), math.sqrt(after_real / used)),
                           observed="worse_fit", mode=mode)
        best = cost_ld(x, y, Rh, th, ch)
        if after_real > best + slack:
            raise Mismatch("fit after alignment (sse %.9e) is worse than the least-squares optimum (%.9e)" % (after_real, best),
                           observed="not_optimal", mode=mode)
        rng = gen.bulk_rng(case["pseed"] + 1)
        mx, my = x.mean(axis=1), y.mean(axis=1)
        for k in range(12):
            ax = rng.standard_normal(3)
            ax /= np.linalg.norm(ax)
            r3 = rm.rodrigues(ax * 10.0 ** rng.uniform(-5, -0.5)) @ r
            c3 = s * (1 + 10.0 ** rng.uniform(-5, -1)) if (ws and k % 2) else s
            t3 = my - c3 * (r3 @ mx)
            alt = cost_ld(x, y, r3, t3, c3)
            if after_real > alt + slack:
                raise Mismatch("a perturbed transformation of the same class fits better (%.9e < %.9e)" % (alt, after_real),
                               observed="not_optimal", mode=mode)
        # S5 idempotence for well-conditioned problems
        sv, detC = rm.covariance_singular_values(x, y)
        sg = 1.0 if detC >= 0 else -1.0
        gapratio = (sv[1] + sg * sv[2]) / max(sv[0], 1e-300)
        ext = float(np.abs(yc).max())
        if gapratio > 1e-3 and ext > 0 and used >= 4:
            before_pos = np.asarray(eo.positions_xyz).copy()
            r4, t4, s4 = eo.align(ro, correct_scale=cs, correct_only_scale=cos, n=n)
            noise_rel = 1e3 * rm.EPS * coords / ext
            tolr = (1e-8 + noise_rel) / gapratio
            if float(np.abs(np.asarray(r4) - np.eye(3)).max()) > tolr or abs(float(s4) - 1.0) > tolr * 10:
                raise Mismatch("re-aligning an aligned trajectory is not the identity: r=%s s=%r (tol %.2e)" % (np.asarray(r4).tolist(), s4, tolr),
                               observed="not_idempotent", mode=mode)
            moved = float(np.abs(np.asarray(eo.positions_xyz) - before_pos).max())
            span = float(np.abs(before_pos - before_pos.mean(axis=0)).max()) + float(np.linalg.norm(before_pos.mean(axis=0) - y.mean(axis=1)))
            if moved > tolr * 10 * (span + ext) + ptol:
                raise Mismatch("re-aligning moved poses by %.3e" % moved, observed="not_idempotent", mode=mode)
    elif mode in ("scale", "scale_both"):
        if not s > 0:
            raise Mismatch("scale %r not positive" % s, observed="scale_sign")
    lab = mode + ("/n" if n != -1 else "")
    return lab


def sub_origin(case):
    ref, est = build(case)
    nr = case.get("near")
    if nr:
        # geo-referenced data: both trajectories far from the world origin, the estimate's start a few (relative) units
        # beside the reference's and (nearly) equally oriented
        W = np.asarray(nr["dir"], dtype=float) * 10.0 ** float(nr["wexp"])
        ref = trajgen.Real(ref.P - ref.P[0] + W, ref.Rs(), ref.mode)
        d = np.asarray(nr["d"], dtype=float) * float(nr["drel"]) * float(np.abs(W).max() + 1.0)
        Rd = rm.rodrigues(np.asarray(nr["dir"], dtype=float) * float(nr["rot"]))
        est = trajgen.Real(ref.P + d, [Rd @ R for R in ref.Rs()], est.mode)
    ro = ref.build(case["ref"]["pre"])
    eo = est.build(case["est"]["pre"])
    sref = snapshot.snapshot(ro)
    T = np.asarray(eo.align_origin(ro), dtype=float)
    if snapshot.diff(sref, ro):
        raise Mismatch("reference modified by align_origin()", observed="reference_modified")
    coords = max(float(np.abs(est.P).max()), float(np.abs(ref.P).max()), 1.0)
    ptol = 512 * rm.EPS * coords
    if rm.orthonormality_defect(T[:3, :3]) > 1e-9 or np.linalg.det(T[:3, :3]) < 0 or not np.array_equal(T[3], [0, 0, 0, 1.0]):
        raise Mismatch("returned origin transformation is not a rigid motion", observed="not_se3")
    exp = [T @ P for P in est.poses]
    _views_consistent(eo, exp, ptol, "after origin alignment (returned matrix applied from the left)")
    M = eo.poses_se3
    if float(np.abs(M[0][:3, 3] - ref.poses[0][:3, 3]).max()) > ptol or float(np.abs(M[0][:3, :3] - ref.poses[0][:3, :3]).max()) > 1e-9:
        raise Mismatch("first pose after origin alignment is not the reference's first pose", observed="first_pose")
    for i in range(est.n - 1):
        a = rm.rel(est.poses[i], est.poses[i + 1])
        b = rm.rel(M[i], M[i + 1])
        if float(np.abs(a[:3, :3] - b[:3, :3]).max()) > 1e-9 or float(np.abs(a[:3, 3] - b[:3, 3]).max()) > 4 * ptol:
            raise Mismatch("relative pose %d->%d changed by origin alignment" % (i, i + 1), observed="relative_pose")
    return "origin" + ("/near" if nr else "")


def sub_result_matrix(case):
    """S7: the matrix recorded in an evo_ape/evo_rpe result maps the unaligned estimate onto the stored one."""
    ref, est = build(case)
    o = case["opts"]
    N = ref.n
    n = -1 if o["n"] == -1 else 3 + int(o["n"]) % (N - 2)
    if not (o["align"] or o["correct_scale"]):
        n = -1
    ro, eo = ref.build(case["ref"]["pre"]), est.build(case["est"]["pre"])
    try:
        if case["which"] == "ape":
            res = main_ape.ape(ro, eo, metrics.PoseRelation.translation_part, align=o["align"], correct_scale=o["correct_scale"],
                               n_to_align=n, align_origin=o["align_origin"], est_name="estimate", ref_name="reference")
        else:
            res = main_rpe.rpe(ro, eo, metrics.PoseRelation.translation_part, 1, metrics.Unit.frames, align=o["align"],
                               correct_scale=o["correct_scale"], n_to_align=n, align_origin=o["align_origin"],
                               est_name="estimate", ref_name="reference")
    except geometry.GeometryException:
        return "refused"
    any_align = o["align"] or o["correct_scale"] or o["align_origin"]
    key = "alignment_transformation_sim3"
    combo = "%s%s%s" % ("a" if o["align"] else "", "s" if o["correct_scale"] else "", "o" if o["align_origin"] else "")
    if not any_align:
        if key in res.np_arrays:
            raise Mismatch("alignment matrix recorded although nothing was aligned", observed="spurious_matrix", combo=combo)
        return "none"
    if key not in res.np_arrays:
        raise Mismatch("no alignment matrix recorded for options %s" % o, observed="missing_matrix", combo=combo)
    A = np.asarray(res.np_arrays[key], dtype=float)
    stored = res.trajectories["estimate"]
    Pst = np.asarray(stored.positions_xyz)
    ids = list(range(N))
    if case["which"] == "rpe":
        ids = [0] + list(range(1, N))  # delta 1 frames: all poses kept
    if Pst.shape[0] != len(ids):
        raise Mismatch("stored estimate has %d poses" % Pst.shape[0], observed="count", combo=combo)
    s = float(np.cbrt(np.linalg.det(A[:3, :3])))
    coords = max(float(np.abs(est.P).max()) * max(1.0, abs(s)), float(np.abs(Pst).max()), float(np.abs(ref.P).max()), 1.0)
    tol = 1024 * rm.EPS * coords
    mapped = (A[:3, :3] @ est.P.T).T + A[:3, 3]
    dev = float(np.abs(mapped - Pst).max())
    if dev > tol:
        raise Mismatch("recorded alignment matrix does not map the unaligned estimate onto the stored estimate (options %s): "
                       "max deviation %.3e (tol %.3e)" % (combo, dev, tol), observed="matrix_mismatch", combo=combo, which=case["which"])
    # orientations: stored R = Rot(A) * R_est
    Rot = A[:3, :3] / s
    for k, T in enumerate(stored.poses_se3):
        if float(np.abs(T[:3, :3] - Rot @ est.poses[k][:3, :3]).max()) > 1e-8:
            raise Mismatch("recorded alignment matrix does not map orientation %d (options %s)" % (k, combo), observed="matrix_mismatch_rot",
                           combo=combo, which=case["which"])
    # S2 through ape()/rpe(): with n_to_align = n only the first n pairs determine the recorded transformation
    if n != -1 and n < N and (o["align"] or o["correct_scale"]):
        rng = gen.bulk_rng(case.get("pseed", 0) + 5)
        ref_g = trajgen.Real(np.vstack([ref.P[:n], rng.standard_normal((N - n, 3)) * 1e3]), ref.Rs(), ref.mode)
        est_g = trajgen.Real(np.vstack([est.P[:n], rng.standard_normal((N - n, 3)) * 1e3]), est.Rs(), est.mode)
        fn = main_ape.ape if case["which"] == "ape" else (lambda a, b, rel, **kw: main_rpe.rpe(a, b, rel, 1, metrics.Unit.frames, **kw))
        try:
            res_g = fn(ref_g.build(), est_g.build(), metrics.PoseRelation.translation_part, align=o["align"], correct_scale=o["correct_scale"],
                       n_to_align=n, align_origin=False, est_name="estimate", ref_name="reference")
            res_0 = res if not o["align_origin"] else fn(ref.build(), est.build(), metrics.PoseRelation.translation_part, align=o["align"],
                                                         correct_scale=o["correct_scale"], n_to_align=n, align_origin=False,
                                                         est_name="estimate", ref_name="reference")
        except geometry.GeometryException:
            return combo
        A0 = np.asarray(res_0.np_arrays[key], dtype=float)
        Ag = np.asarray(res_g.np_arrays[key], dtype=float)
        if not np.array_equal(A0, Ag):
            raise Mismatch("%s() with n_to_align=%d (options %s): the recorded alignment depends on poses beyond the first n" % (case["which"], n, combo),
                           observed="uses_more_than_n", combo=combo, which=case["which"])
        return combo + "/n"
    return combo


def sub_bulk(case):
    N = int(case["n"])
    ref = trajgen.bulk_real(N, case["seed"], case["mode1"], mag=float(case["mag"]), off=int(case["off"]))
    rng = gen.bulk_rng(case["seed"] + 3)
    R = rm.quat_to_R(rm.random_unit_quat(rng))
    c = float(case["c"])
    ext = float(np.abs(ref.P - ref.P.mean(axis=0)).max())
    P = (c * (R @ ref.P.T)).T + rng.standard_normal(3) * ext + float(case["noise"]) * ext * c * rng.standard_normal((N, 3))
    est = trajgen.Real(P, ref.Rs(), case["mode2"])
    mode = case["mode"]
    cs, cos = _mode_args(mode)
    ro, eo = ref.build(), est.build()
    r, t, s = eo.align(ro, correct_scale=cs, correct_only_scale=cos, n=-1)
    exp = _apply_ref(est, np.asarray(r), np.asarray(t), float(s), mode)
    coords = max(float(np.abs(est.P).max()) * max(1.0, float(s)), float(np.abs(ref.P).max()), 1.0)
    _views_consistent(eo, exp, 256 * rm.EPS * coords, "bulk %s alignment" % mode)
    if mode != "scale":
        x, y = est.P.T, ref.P.T
        Rh, th, ch, gap = rm.horn(x, y, mode == "similarity")
        got = np.asarray(eo.positions_xyz).T
        after = float(np.sum((got.astype(np.longdouble) - y.astype(np.longdouble)) ** 2))
        yc = y - y.mean(axis=1, keepdims=True)
        if after > cost_ld(x, y, Rh, th, ch) + 1e-8 * float(np.sum(yc * yc)) + 4 * noise_floor(x, y, s, after):
            raise Mismatch("bulk: fit after alignment worse than least-squares optimum", observed="not_optimal", mode=mode)
    return "bulk/" + mode


def _st_case(min_n, max_n, extra):
    def mk(n):
        d = {
            "ref": trajgen.st_traj(n, False, -2, 5),
            "est": trajgen.st_traj(n, False, -2, 5),
            "gen": st.fixed_dictionaries({"rot": gen.st_rotation, "c": st.one_of(st.just(1.0), gen.log_uniform(-2, 2)),
                                          "t": st.lists(gen.unit_f, min_size=3, max_size=3), "trel": st.sampled_from([0.0, 1.0, 100.0])}),
            "noise": st.sampled_from([0.0, 1e-9, 1e-3, 0.05, 0.3, 1.0]),
            "pseed": st.integers(0, 2 ** 32),
        }
        d.update(extra)
        return st.fixed_dictionaries(d)
    return st.integers(min_n, max_n).flatmap(mk)


st_align = _st_case(3, 24, {"int_pos": st.sampled_from([False, False, False, True]), "share_mats": st.sampled_from([False, False, False, True]), "mode": st.sampled_from(["rigid", "similarity", "scale", "scale_both"]),
                            "n": st.one_of(st.just(-1), st.integers(0, 40))})
st_origin = _st_case(1, 12, {"near": st.one_of(st.none(), st.none(), st.fixed_dictionaries({
    "dir": st.lists(gen.unit_f, min_size=3, max_size=3), "wexp": st.sampled_from([0, 3, 5, 6, 7]), "d": st.lists(gen.unit_f, min_size=3, max_size=3),
    "drel": st.sampled_from([1e-9, 1e-7, 3e-6, 1e-5, 1e-3]), "rot": st.sampled_from([0.0, 0.0, 1e-9, 1e-6, 1e-2])}))})
st_result = _st_case(3, 10, {
    "which": st.sampled_from(["ape", "rpe"]),
    "opts": st.fixed_dictionaries({"align": st.booleans(), "correct_scale": st.booleans(), "align_origin": st.booleans(),
                                   "n": st.one_of(st.just(-1), st.integers(0, 20))})})
st_bulk = st.fixed_dictionaries({
    "n": st.sampled_from([300, 2000]), "seed": st.integers(0, 2 ** 32), "mode1": st.sampled_from(["pq", "se3"]),
    "mode2": st.sampled_from(["pq", "se3"]), "mag": st.sampled_from([1.0, 1e3]), "off": st.integers(0, 2),
    "c": st.sampled_from([1e-2, 1.0, 42.0]), "noise": st.sampled_from([0.0, 0.01, 1.0]),
    "mode": st.sampled_from(["rigid", "similarity", "scale"])})


def _nt(case):
    return float(case["noise"]) > 0 or case.get("n", -1) != -1 or float(case["gen"]["c"]) != 1.0


SUBS = [
    Sub("align", sub_align, st_align, 2000, 100000, nontrivial=_nt, shards_quick=8),
    Sub("origin", sub_origin, st_origin, 600, 30000, nontrivial=lambda c: c["ref"]["n"] >= 2),
    Sub("result_matrix", sub_result_matrix, st_result, 800, 40000, nontrivial=lambda c: any(c["opts"][k] for k in ("align", "correct_scale", "align_origin"))),
    Sub("bulk", sub_bulk, st_bulk, 16, 400, shards_quick=4),
]


# ---- alignment requested through evo_traj (--align / --correct_scale / --align_origin / --n_to_align with --ref) ---------
from vf.checks import c15 as _c15
SUBS.append(Sub("cli_align", _c15.sub_traj, _c15.make_st_case(
    has_ref=st.just(True), align_mode=st.sampled_from(["align", "origin", "none"]), tf=st.none(), project=st.none(), downsample=st.none(),
    mf=st.none(), merge=st.just(False)), 300, 8000,
    nontrivial=lambda c: any(c["opts"].get(k) for k in ("align", "correct_scale", "align_origin")), shards_quick=4))
