"""C05 — Time association pairs each pose with its nearest counterpart within max_diff."""
import math
from fractions import Fraction

import numpy as np
from hypothesis import strategies as st

from vf import gen, refmodel as rm, snapshot
from vf.core import Mismatch, Sub

from evo.core import sync
from evo.core.trajectory import PoseTrajectory3D, PosePath3D

PROPERTY = "C05"
RULE = ("pairs of strictly increasing stamp vectors on integer lattices (unit 2^-10 s: exact arithmetic, "
        "|diff| == max_diff decidable; units 1e-3/1e-6 s: inexact, margin policy) at bases 0 / 1.5e9 s, "
        "independent or jittered/bursty counterparts, offsets of both signs, max_diff >= 0, both length "
        "orders, both storage modes, tagged poses; plus Philox-expanded bulk pairs up to 5000 stamps. "
        "Non-trivial = lengths differ or offset != 0 or a boundary hit or a contested counterpart; "
        "distinct by SHA-1 of the case"
        ' Round-3 addition: evo_traj --ref --sync with 1-3 trajectories (cli_sync).')
ASSUMPTIONS = ["differences are evaluated exactly (fractions.Fraction) for drawn cases; for bulk cases in float64 with "
               "a 8-ulp ambiguity margin within which either decision is accepted"]

UNITS = {"dyadic": Fraction(1, 1024), "milli": None, "micro": None}


def _values(case, ks):
    base = float(case["base"])
    res = case["res"]
    if res == "dyadic":
        return np.array([base + k / 1024.0 for k in ks], dtype=float)
    if res == "milli":
        return np.array([base + k * 1e-3 for k in ks], dtype=float)
    return np.array([base + k * 1e-6 for k in ks], dtype=float)


def _scalar(case, k):
    res = case["res"]
    if res == "dyadic":
        return k / 1024.0
    if res == "milli":
        return k * 1e-3
    return k * 1e-6


def _tagged(ts, mode, which):
    n = len(ts)
    k = np.arange(n, dtype=float)
    if which == 1:
        P = np.column_stack([k, 0.5 * k + 0.25, np.full(n, 1.0)])
        ang = 0.01 * k
    else:
        P = np.column_stack([-k - 1000.0, 2.0 * k + 0.125, np.full(n, -3.0)])
        ang = -0.02 * k - 0.5
    Q = np.column_stack([np.cos(ang / 2), np.zeros(n), np.zeros(n), np.sin(ang / 2)])
    if mode == "pq":
        return PoseTrajectory3D(positions_xyz=P.copy(), orientations_quat_wxyz=Q.copy(), timestamps=np.array(ts, dtype=float)), P, Q
    poses = rm.poses_from(P, Q)
    return PoseTrajectory3D(poses_se3=[p.copy() for p in poses], timestamps=np.array(ts, dtype=float)), P, poses


class Assoc(object):
    """Analysis of the association problem |t1 - (t2 + offset)|; exact (Fractions) or float64."""

    def __init__(self, t1, t2, offset, max_diff, exact=True, margin=0):
        self.t1, self.t2 = t1, t2
        self.exact = exact
        if exact:
            f1 = [Fraction(float(x)) for x in t1]
            f2 = [Fraction(float(x)) + Fraction(float(offset)) for x in t2]
            self.D = [[abs(a - b) for b in f2] for a in f1]
            self.md = Fraction(float(max_diff))
            self.margin = Fraction(float(margin))
        else:
            self.a = np.asarray(t1, dtype=float)
            self.b = np.asarray(t2, dtype=float) + float(offset)
            self.md = float(max_diff)
            self.margin = float(margin)

    def diff(self, i, j):
        if self.exact:
            return self.D[i][j]
        return abs(float(self.a[i] - self.b[j]))

    def within(self, d):
        """True: definitely <= max_diff; False: definitely >; None: inside the ambiguity margin."""
        if self.margin == 0:
            return d <= self.md
        if self.md - d > self.margin:
            return True
        if d - self.md > self.margin:
            return False
        return None

    def nearest_set(self, idx, axis):
        """indices on the other side whose distance is within margin of the minimum. axis=0: idx in t1."""
        if self.exact:
            row = self.D[idx] if axis == 0 else [self.D[i][idx] for i in range(len(self.t1))]
            m = min(row)
            return [k for k, d in enumerate(row) if d - m <= self.margin], m
        if axis == 0:
            row = np.abs(self.b - self.a[idx])
        else:
            row = np.abs(self.a - self.b[idx])
        m = float(row.min())
        return np.nonzero(row - m <= self.margin)[0].tolist(), m


def _needs_margin(case):
    return case["res"] != "dyadic"


def check_pairs(case, t1, t2, offset, max_diff, idx1, idx2, short_is_first, exact=True, margin=0, who=""):
    """idx1/idx2: indices (into t1/t2) of the k-th output pair. Raises Mismatch."""
    n1, n2 = len(t1), len(t2)
    if len(idx1) != len(idx2):
        raise Mismatch("%sunequal output lengths %d vs %d" % (who, len(idx1), len(idx2)), clause="equal_length")
    if len(idx1) == 0:
        raise Mismatch("%sempty association returned instead of SyncException" % who, clause="nonempty")
    for name, idx in (("first", idx1), ("second", idx2)):
        if any(b <= a for a, b in zip(idx, idx[1:])):
            dup = any(b == a for a, b in zip(idx, idx[1:])) or len(set(idx)) != len(idx)
            longer = (name == "first") != short_is_first if n1 != n2 else None
            if dup:
                raise Mismatch("%sa pose of the %s input is used more than once: indices %s" % (who, name, idx),
                               clause="used_twice", side_is_longer=bool(longer) if longer is not None else "equal")
            raise Mismatch("%soutput of the %s input not in increasing time order: %s" % (who, name, idx), clause="order")
    A = Assoc(t1, t2, offset, max_diff, exact, margin)
    for i, j in zip(idx1, idx2):
        d = A.diff(i, j)
        if A.within(d) is False:
            raise Mismatch("%spair (%d,%d) has |t1-(t2+offset)| = %s > max_diff %s" % (who, i, j, float(d), float(max_diff)),
                           clause="within_max_diff", boundary=bool(d == A.md))
    # who drives: the shorter one; for equal length either
    paired1 = dict(zip(idx1, idx2))
    paired2 = dict(zip(idx2, idx1))

    def judge(short_first):
        """returns None if valid under this role assignment, else (clause, message)"""
        axis = 0 if short_first else 1
        ns = n1 if short_first else n2
        pairs = paired1 if short_first else paired2
        near = [A.nearest_set(s, axis) for s in range(ns)]
        # validity: every produced pair joins s to one of its nearest counterparts
        for s, l in pairs.items():
            if l not in near[s][0]:
                return ("not_nearest", "pose %d of the shorter input is paired with %d, its nearest counterpart(s) are %s" % (s, l, near[s][0]))
        # completeness for uncontested, unambiguous poses
        claims = {}
        for s in range(ns):
            for l in near[s][0]:
                claims.setdefault(l, []).append(s)
        for s in range(ns):
            cand, m = near[s]
            if len(cand) != 1:
                continue
            l = cand[0]
            if len(claims[l]) != 1:
                continue
            if A.within(m) is True and s not in pairs:
                return ("missing_pair", "pose %d of the shorter input has its uncontested nearest counterpart %d within max_diff (diff %s <= %s) but is not paired" % (s, l, float(m), float(max_diff)))
        return None

    if n1 != n2:
        verdicts = [judge(short_is_first)]
    else:
        verdicts = [judge(True), judge(False)]
    if all(v is not None for v in verdicts):
        v = verdicts[0]
        raise Mismatch(who + v[1], clause=v[0])


def expected_refusal(t1, t2, offset, max_diff, exact, margin):
    """'must' if no pair can be within max_diff, 'no' if some pair definitely is, else 'may'."""
    A = Assoc(t1, t2, offset, max_diff, exact, margin)
    best = None
    for i in range(len(t1)):
        cand, m = A.nearest_set(i, 0)
        best = m if best is None or m < best else best
    w = A.within(best)
    return "no" if w is True else ("must" if w is False else "may")


def _margin_for(case, t1, t2, offset):
    if case["res"] == "dyadic":
        return 0
    scale = max(float(np.abs(t1).max()), float(np.abs(t2).max()), abs(offset), 1e-300)
    return 8 * rm.EPS * scale


def _identify(out, inp_ts, what):
    """index of each output stamp in the input (stamps are unique)"""
    lut = {}
    for i, t in enumerate(inp_ts.tolist()):
        lut[t] = i
    idx = []
    for t in np.asarray(out.timestamps).tolist():
        if t not in lut:
            raise Mismatch("output timestamp %r of the %s trajectory is not a timestamp of the input" % (t, what), clause="copy_of_input")
        idx.append(lut[t])
    return idx


def sub_associate(case):
    t1 = _values(case, case["a"])
    t2 = _values(case, case["b"])
    offset = _scalar(case, case["off"])
    max_diff = _scalar(case, case["md"])
    tr1, P1, O1 = _tagged(t1, case["mode1"], 1)
    tr2, P2, O2 = _tagged(t2, case["mode2"], 2)
    # which views were read (cached) before the association must not matter
    for tr, pre in ((tr1, case.get("pre1", [])), (tr2, case.get("pre2", []))):
        for v in pre:
            getattr(tr, v)
    s1, s2 = snapshot.snapshot(tr1), snapshot.snapshot(tr2)
    margin = _margin_for(case, t1, t2, offset)
    try:
        o1, o2 = sync.associate_trajectories(tr1, tr2, max_diff, offset)
    except sync.SyncException:
        exp = expected_refusal(t1, t2, offset, max_diff, True, margin)
        if exp == "no":
            raise Mismatch("SyncException although a pair within max_diff exists", clause="spurious_refusal")
        _unchanged(s1, tr1, s2, tr2)
        return "refused"
    if expected_refusal(t1, t2, offset, max_diff, True, margin) == "must":
        raise Mismatch("association returned although nothing is within max_diff", clause="missing_refusal")
    if not isinstance(o1, PoseTrajectory3D) or not isinstance(o2, PoseTrajectory3D):
        raise Mismatch("outputs are not PoseTrajectory3D", clause="type")
    if o1 is tr1 or o2 is tr2 or o1 is tr2 or o2 is tr1:
        raise Mismatch("an output object is an input object", clause="copy_of_input")
    if o1.num_poses != o2.num_poses or len(o1.timestamps) != len(o2.timestamps) or len(o1.timestamps) != o1.num_poses:
        raise Mismatch("unequal output lengths: poses %d/%d stamps %d/%d" % (o1.num_poses, o2.num_poses, len(o1.timestamps), len(o2.timestamps)),
                       clause="equal_length")
    idx1 = _identify(o1, t1, "first")
    idx2 = _identify(o2, t2, "second")
    for out, nm in ((o1, "first"), (o2, "second")):
        ok, details = out.check()
        if not ok:
            raise Mismatch("the %s output fails evo's own validity check: %s" % (nm, details), clause="copy_of_input")
    # pose and timestamp travel together, bit-identical
    for out, idx, P, O, mode, nm in ((o1, idx1, P1, O1, case["mode1"], "first"), (o2, idx2, P2, O2, case["mode2"], "second")):
        if len(idx) == 0:
            continue
        if not np.array_equal(np.asarray(out.positions_xyz), P[idx]):
            raise Mismatch("positions of the %s output are not the input poses at the matched timestamps" % nm, clause="copy_of_input")
        if mode == "pq":
            if not np.array_equal(np.asarray(out.orientations_quat_wxyz), O[idx]):
                raise Mismatch("orientations of the %s output are not those of the matched input poses" % nm, clause="copy_of_input")
            got = out.poses_se3
            if len(got) != len(idx) or not all(np.array_equal(np.asarray(g)[:3, 3], P[i]) for g, i in zip(got, idx)):
                raise Mismatch("pose matrices of the %s output (%d) are not those of the %d matched input poses" % (nm, len(got), len(idx)), clause="copy_of_input")
        else:
            got = out.poses_se3
            if len(got) != len(idx) or not all(np.array_equal(g, O[i]) for g, i in zip(got, idx)):
                raise Mismatch("pose matrices of the %s output are not those of the matched input poses" % nm, clause="copy_of_input")
    short_is_first = len(t1) < len(t2)
    check_pairs(case, t1, t2, offset, max_diff, idx1, idx2, short_is_first, True, margin)
    _unchanged(s1, tr1, s2, tr2)
    return _classify(case)


def _unchanged(s1, tr1, s2, tr2):
    d = snapshot.diff(s1, tr1) + snapshot.diff(s2, tr2)
    if d:
        raise Mismatch("input trajectory modified by association: %s" % d, clause="inputs_unchanged")


def sub_indices(case):
    """matching_time_indices directly: the first argument drives the search."""
    t1 = _values(case, case["a"])
    t2 = _values(case, case["b"])
    offset = _scalar(case, case["off"])
    max_diff = _scalar(case, case["md"])
    b1, b2 = t1.tobytes(), t2.tobytes()
    i1, i2 = sync.matching_time_indices(t1, t2, max_diff, offset)
    if t1.tobytes() != b1 or t2.tobytes() != b2:
        raise Mismatch("matching_time_indices modified its input arrays", clause="inputs_unchanged")
    i1 = [int(v) for v in i1]
    i2 = [int(v) for v in i2]
    if any(not (0 <= v < len(t1)) for v in i1) or any(not (0 <= v < len(t2)) for v in i2):
        raise Mismatch("index out of range: %s %s" % (i1, i2), clause="range")
    margin = _margin_for(case, t1, t2, offset)
    # stamps_1 + offset relation: |t1 - (t2 + offset)|
    if len(i1) == 0 and len(i2) == 0:
        if expected_refusal(t1, t2, offset, max_diff, True, margin) == "no":
            raise Mismatch("no indices although a pair within max_diff exists", clause="spurious_refusal")
        return "empty"
    # the driving list is the first argument, whatever the lengths
    n1, n2 = len(t1), len(t2)
    # use check_pairs with "short_is_first=True" semantics by pretending lengths differ
    _check_indices(case, t1, t2, offset, max_diff, i1, i2, margin)
    return _classify(case)


def _check_indices(case, t1, t2, offset, max_diff, i1, i2, margin):
    if len(i1) != len(i2):
        raise Mismatch("unequal index list lengths", clause="equal_length")
    if any(b <= a for a, b in zip(i1, i1[1:])):
        raise Mismatch("indices of the first list not strictly increasing: %s" % i1, clause="order")
    A = Assoc(t1, t2, offset, max_diff, True, margin)
    for i, j in zip(i1, i2):
        d = A.diff(i, j)
        if A.within(d) is False:
            raise Mismatch("pair (%d,%d): diff %s > max_diff %s" % (i, j, float(d), float(max_diff)), clause="within_max_diff",
                           boundary=bool(d == A.md))
        cand, m = A.nearest_set(i, 0)
        if j not in cand:
            raise Mismatch("stamp %d matched to %d, nearest is %s" % (i, j, cand), clause="not_nearest")
    paired = dict(zip(i1, i2))
    claims = {}
    near = [A.nearest_set(s, 0) for s in range(len(t1))]
    for s in range(len(t1)):
        for l in near[s][0]:
            claims.setdefault(l, []).append(s)
    for s in range(len(t1)):
        cand, m = near[s]
        if len(cand) == 1 and len(claims[cand[0]]) == 1:
            if A.within(m) is True and s not in paired:
                raise Mismatch("stamp %d has an uncontested nearest counterpart within max_diff but is not matched" % s, clause="missing_pair",
                               boundary=bool(m == A.md))


def _classify(case):
    tags = []
    if len(case["a"]) != len(case["b"]):
        tags.append("first_longer" if len(case["a"]) > len(case["b"]) else "second_longer")
    else:
        tags.append("equal_len")
    return "%s/%s" % (case["res"], tags[0])


def _nontrivial(case):
    if len(case["a"]) != len(case["b"]) or case["off"] != 0:
        return True
    return _has_boundary_or_contest(case)


def _has_boundary_or_contest(case):
    a, b, off, md = case["a"], case["b"], case["off"], case["md"]
    for x in a:
        if any(abs(x - (y + off)) == md for y in b):
            return True
    return False


# ---- bulk -------------------------------------------------------------------------------------

def sub_bulk(case):
    rng = gen.bulk_rng(case["seed"])
    n = int(case["n"])
    base = float(case["base"])
    dt = float(case["dt"])
    ta = base + np.cumsum(rng.uniform(0.5 * dt, 1.5 * dt, size=n))
    keep = rng.uniform(size=n) < float(case["keep"])
    if keep.sum() == 0:
        keep[0] = True
    tb = ta[keep] + rng.uniform(-float(case["jit"]), float(case["jit"]), size=int(keep.sum())) - float(case["off"])
    tb = np.unique(tb)
    if case["swap"]:
        t1, t2 = tb, ta
        offset = -float(case["off"])
        # t2 + offset must meet t1:  ta - off ~ tb  => offset for second = -off ... recompute below
        t1, t2, offset = tb, ta, -float(case["off"])
    else:
        t1, t2, offset = ta, tb, float(case["off"])
    max_diff = float(case["md"])
    tr1 = PoseTrajectory3D(positions_xyz=np.column_stack([np.arange(len(t1), dtype=float)] * 3),
                           orientations_quat_wxyz=np.tile([1.0, 0, 0, 0], (len(t1), 1)), timestamps=t1.copy())
    tr2 = PoseTrajectory3D(positions_xyz=np.column_stack([-np.arange(len(t2), dtype=float)] * 3),
                           orientations_quat_wxyz=np.tile([1.0, 0, 0, 0], (len(t2), 1)), timestamps=t2.copy())
    s1, s2 = snapshot.snapshot(tr1), snapshot.snapshot(tr2)
    margin = 8 * rm.EPS * max(float(np.abs(t1).max()), float(np.abs(t2).max()), abs(offset), 1.0)
    try:
        o1, o2 = sync.associate_trajectories(tr1, tr2, max_diff, offset)
    except sync.SyncException:
        exp = expected_refusal(t1, t2, offset, max_diff, False, margin)
        if exp == "no":
            raise Mismatch("SyncException although pairs exist (bulk)", clause="spurious_refusal")
        return "refused"
    idx1 = _identify(o1, t1, "first")
    idx2 = _identify(o2, t2, "second")
    if not np.array_equal(o1.positions_xyz[:, 0], np.asarray(idx1, dtype=float)) or \
            not np.array_equal(o2.positions_xyz[:, 0], -np.asarray(idx2, dtype=float)):
        raise Mismatch("bulk: pose and timestamp did not travel together", clause="copy_of_input")
    check_pairs(case, t1, t2, offset, max_diff, idx1, idx2, len(t1) < len(t2), False, margin, who="bulk: ")
    _unchanged(s1, tr1, s2, tr2)
    return "bulk"


# ---- strategies -------------------------------------------------------------------------------

def _sorted_unique(xs):
    return sorted(set(xs))


def _mk_case(base, res, a, bmode, b_ind, picks, jit, off, md, mode1, mode2, swap, pre1=(), pre2=()):
    a = _sorted_unique(a)
    if bmode == "independent":
        b = _sorted_unique(b_ind)
    else:
        b = []
        for k, (p, j) in enumerate(zip(picks, jit)):
            if k < len(a) and p:
                b.append(a[k] + j)
        if bmode == "burst" and a:
            # several stamps of b crowd around one stamp of a (contested counterpart)
            c = a[len(a) // 2]
            b += [c + j for j in jit[:4]]
        b = _sorted_unique(b)
        if not b:
            b = [a[0]]
    b = [x - off for x in b]
    if swap:
        a, b = b, a
        off = -off
    return {"base": base, "res": res, "a": a, "b": b, "off": off, "md": md, "mode1": mode1, "mode2": mode2, "pre1": list(pre1), "pre2": list(pre2)}


st_case = st.builds(
    _mk_case,
    st.sampled_from([0.0, 1.5e9]),
    st.sampled_from(["dyadic", "dyadic", "milli", "micro"]),
    st.lists(st.integers(0, 120), min_size=1, max_size=40),
    st.sampled_from(["independent", "jitter", "jitter", "burst"]),
    st.lists(st.integers(0, 120), min_size=1, max_size=40),
    st.lists(st.booleans(), min_size=40, max_size=40),
    st.lists(st.integers(-6, 6), min_size=40, max_size=40),
    st.sampled_from([0, 0, 0, 1, -1, 3, -7, 500, -500]),
    st.sampled_from([0, 1, 2, 3, 5, 10]),
    st.sampled_from(["pq", "se3"]),
    st.sampled_from(["pq", "se3"]),
    st.booleans(),
    st.lists(st.sampled_from(["positions_xyz", "orientations_quat_wxyz", "poses_se3"]), max_size=2, unique=True),
    st.lists(st.sampled_from(["positions_xyz", "orientations_quat_wxyz", "poses_se3"]), max_size=2, unique=True),
)

st_bulk = st.fixed_dictionaries({
    "seed": st.integers(0, 2 ** 32), "n": st.sampled_from([200, 1000, 5000]),
    "base": st.sampled_from([0.0, 1.5e9]), "dt": st.sampled_from([0.01, 0.05, 0.1]),
    "keep": st.sampled_from([0.1, 0.5, 0.9, 1.0]), "jit": st.sampled_from([0.0, 0.001, 0.004, 0.02]),
    "off": st.sampled_from([0.0, 0.25, -3.0]), "md": st.sampled_from([0.0, 0.005, 0.01]),
    "swap": st.booleans(),
})

SUBS = [
    Sub("associate", sub_associate, st_case, 4000, 250000, nontrivial=_nontrivial),
    Sub("indices", sub_indices, st_case, 2000, 100000, nontrivial=_nontrivial),
    Sub("bulk", sub_bulk, st_bulk, 40, 1500, nontrivial=lambda c: True, shards_quick=4),
]


# ---- association as evo_traj requests it: several trajectories synchronised with one reference ---------------------
from vf.checks import c15 as _c15
SUBS.append(Sub("cli_sync", _c15.sub_traj, _c15.make_st_case(
    fmt=st.sampled_from(["tum", "tum", "euroc"]), has_ref=st.just(True), sync=st.just(True), ntraj=st.sampled_from([1, 2, 3]), tf=st.none(),
    align_mode=st.just("none"), correct_scale=st.just(False), project=st.none(), downsample=st.none(), mf=st.none()), 300, 8000,
    nontrivial=lambda c: len(c["trajs"]) >= 2, shards_quick=4))
