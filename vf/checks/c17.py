"""C17 — Existing output files are never overwritten without confirmation."""
import io
import itertools
import json
import os
import pathlib
import pickle
import tempfile

import numpy as np

from vf import gen, refmodel as rm, cli
from vf.core import Mismatch, Sub, Report

PROPERTY = "C17"
RULE = ("finite product {writer function or CLI output option} x {target exists / does not / (for multi-file outputs) only a later "
        "file exists} x answer {'y','n','','yes','Y',' y'} x {confirmation on, off (--no_warnings)} x {str, pathlib.Path where "
        "accepted}: pre-existing targets hold sentinel bytes, input() is scripted and records prompts; quick tier: all non-plot "
        "combinations + a slice of the plot ones, thorough tier: the whole product. Non-trivial = target exists; combinations "
        "are distinct by construction"
        ' Round-3 addition: existing targets that are empty files.')
ASSUMPTIONS = ["'replaced by the new output' is judged by loading the file with the matching reader / magic bytes",
               "builtins.input is the only confirmation channel"]
SENTINEL = b"SENTINEL-do-not-touch-\x00\x01\n"
_CUR = {"content": SENTINEL}


def _S():
    """bytes the pre-existing targets of the current case hold (a sentinel, or nothing at all: an empty file exists too)"""
    return _CUR["content"]

ANSWERS = ["y", "n", "", "yes", "Y", " y"]


def _traj(timed=True, n=5, seed=3):
    from evo.core.trajectory import PosePath3D, PoseTrajectory3D
    P, Q, T = gen.bulk_trajectory(n, seed)
    if timed:
        return PoseTrajectory3D(positions_xyz=P, orientations_quat_wxyz=Q, timestamps=T)
    return PosePath3D(positions_xyz=P, orientations_quat_wxyz=Q)


def _result():
    from evo.core import result
    r = result.Result()
    r.add_info({"title": "t", "est_name": "e", "label": "APE (m)"})
    r.add_stats({"rmse": 1.5})
    r.add_np_array("error_array", np.array([1.0, 2.0]))
    return r


def _plot_collection():
    import matplotlib
    matplotlib.use("Agg")
    import matplotlib.pyplot as plt
    from evo.tools import plot
    pc = plot.PlotCollection("t")
    for name in ("raw", "map"):
        fig = plt.figure()
        fig.gca().plot([0, 1], [1, 0])
        pc.add_figure(name, fig)
    return pc


def _loadable(kind, path):
    data = open(path, "rb").read()
    if data == _S():
        return False
    try:
        if kind == "tum":
            rm.parse_tum(data.decode())
        elif kind == "kitti":
            rm.parse_kitti(data.decode())
        elif kind == "zip":
            cli.read_archive(path)
        elif kind == "csv":
            return len(data) > 0 and b"," in data
        elif kind == "pdf":
            return data.startswith(b"%PDF")
        elif kind == "png":
            return data.startswith(b"\x89PNG")
        elif kind == "pickle":
            pickle.loads(data)
        elif kind == "json":
            json.loads(data.decode())
    except Exception:
        return False
    return True


def _check_replaced(kind, path, data, label):
    """'replaced by the new output': nothing of the old file survives inside the new one"""
    if _S() and _S() in data:
        raise Mismatch("%s: the old content of %s is still part of the file after the overwrite" % (label, os.path.basename(path)),
                       observed="not_replaced", site=label, how="old_bytes_kept")
    if kind == "zip":
        import zipfile
        with zipfile.ZipFile(path) as z:
            names = z.namelist()
        if len(set(names)) != len(names):
            raise Mismatch("%s: archive %s has duplicate members after the overwrite: %s" % (label, os.path.basename(path), sorted(names)),
                           observed="not_replaced", site=label, how="appended")


def _judge(case, targets, prompts, kinds, before_listing, d, label):
    """targets: list of paths in the order they are written; case['exists'] in {'none','first','last','all'}"""
    confirm = case["confirm"]
    ans = case["answer"]
    existed = [t for t in targets if t in case["_pre"]]
    if not confirm or not existed:
        if prompts:
            raise Mismatch("%s: a confirmation prompt was issued although %s" % (label, "warnings are disabled" if not confirm else "no target existed"),
                           observed="spurious_prompt", site=label)
        for t, k in zip(targets, kinds):
            if not os.path.exists(t) or not _loadable(k, t):
                raise Mismatch("%s: %s was not (re)written with a loadable output (confirm=%s, existed=%s)" % (label, os.path.basename(t), confirm, t in case["_pre"]),
                               observed="not_written", site=label)
            if t in case["_pre"]:
                _check_replaced(k, t, open(t, "rb").read(), label)
        return
    # confirmation required for every pre-existing target that is reached
    if not prompts:
        raise Mismatch("%s: existing file %s overwritten/handled without asking for confirmation" % (label, os.path.basename(existed[0])),
                       observed="no_prompt", site=label)
    confirmed = ans == "y"
    for t, k in zip(targets, kinds):
        if t in case["_pre"]:
            data = open(t, "rb").read() if os.path.exists(t) else None
            if not confirmed:
                if data != _S():
                    raise Mismatch("%s: existing file %s was changed although the answer was %r (not 'y')" % (label, os.path.basename(t), ans),
                                   observed="overwritten", site=label, answer=ans)
            else:
                if data == _S() or not _loadable(k, t):
                    raise Mismatch("%s: existing file %s was not replaced although the answer was 'y'" % (label, os.path.basename(t)),
                                   observed="not_replaced", site=label)
                _check_replaced(k, t, data, label)
    if not confirmed:
        after = set(os.listdir(d))
        new = after - before_listing - set(os.path.basename(t) for t in targets)
        if new:
            raise Mismatch("%s: refused overwrite, but new files appeared in its place: %s" % (label, sorted(new)), observed="sibling_written", site=label)


def _prepare(d, targets, exists):
    pre = set()
    for i, t in enumerate(targets):
        make = exists == "all" or (exists == "first" and i == 0) or (exists == "last" and i == len(targets) - 1 and len(targets) > 1)
        if make:
            if _CUR.get("symlink"):
                # the existing target is a symbolic link to a regular file elsewhere (it exists, and writing goes through it)
                real = os.path.join(d, "linked_" + os.path.basename(t))
                with open(real, "wb") as f:
                    f.write(_S())
                os.symlink(real, t)
            else:
                with open(t, "wb") as f:
                    f.write(_S())
            pre.add(t)
    return pre


# ---- writer functions ------------------------------------------------------------------------------

WRITERS = ["tum", "kitti", "res", "res_nosuffix", "table", "plot_pdf", "plot_png", "plot_pdf_split", "serialize"]


def run_writer(case):
    import builtins
    from evo.tools import file_interface, pandas_bridge
    d = tempfile.mkdtemp(prefix="c17_", dir=os.getcwd())
    w = case["writer"]
    ptype = case["ptype"]
    name = {"tum": "out.tum", "kitti": "out.kitti", "res": "out.zip", "res_nosuffix": "results", "table": "table.csv", "plot_pdf": "plots.pdf",
            "plot_png": "plots.png", "plot_pdf_split": "plots.pdf", "serialize": "plots.pickle"}[w]
    path = os.path.join(d, name)
    targets = [path]
    kinds = [{"tum": "tum", "kitti": "kitti", "res": "zip", "res_nosuffix": "zip", "table": "csv", "plot_pdf": "pdf", "serialize": "pickle", "plot_png": "png",
              "plot_pdf_split": "pdf"}[w]]
    if w == "plot_png":
        targets = [os.path.join(d, "plots_raw.png"), os.path.join(d, "plots_map.png")]
        kinds = ["png", "png"]
    if w == "plot_pdf_split":
        # plot_split: one PDF per figure
        targets = [os.path.join(d, "plots_raw.pdf"), os.path.join(d, "plots_map.pdf")]
        kinds = ["pdf", "pdf"]
    case["_pre"] = _prepare(d, targets, case["exists"])
    before = set(os.listdir(d))
    arg = pathlib.Path(path) if ptype == "pathlib" else path
    script = cli.Script([case["answer"]] * 4)
    old = builtins.input
    builtins.input = script
    cli.reset_state()
    try:
        import contextlib
        with contextlib.redirect_stdout(io.StringIO()), contextlib.redirect_stderr(io.StringIO()):
            pos = case.get("positional")   # confirm_overwrite is the third positional parameter of these writers
            if w == "tum":
                file_interface.write_tum_trajectory_file(arg, _traj(True), case["confirm"]) if pos else \
                    file_interface.write_tum_trajectory_file(arg, _traj(True), confirm_overwrite=case["confirm"])
            elif w == "kitti":
                file_interface.write_kitti_poses_file(arg, _traj(False), case["confirm"]) if pos else \
                    file_interface.write_kitti_poses_file(arg, _traj(False), confirm_overwrite=case["confirm"])
            elif w in ("res", "res_nosuffix"):
                file_interface.save_res_file(arg, _result(), case["confirm"]) if pos else \
                    file_interface.save_res_file(arg, _result(), confirm_overwrite=case["confirm"])
            elif w == "table":
                import pandas as pd
                pandas_bridge.save_df_as_table(pd.DataFrame({"a": [1.0, 2.0]}, index=["x", "y"]), arg, confirm_overwrite=case["confirm"])
            elif w in ("plot_pdf", "plot_png", "plot_pdf_split"):
                if w == "plot_pdf_split":
                    from evo.tools.settings import SETTINGS
                    SETTINGS.plot_split = True
                pc = _plot_collection()
                pc.export(str(arg), confirm_overwrite=case["confirm"])
                pc.close()
            elif w == "serialize":
                pc = _plot_collection()
                pc.serialize(str(arg), confirm_overwrite=case["confirm"])
                pc.close()
    finally:
        builtins.input = old
    _judge(case, targets, script.prompts, kinds, before, d, "writer:" + w)
    return "writer:" + w


# ---- CLI output options ------------------------------------------------------------------------------

CLI_SITES = [
    ("ape", "save_results"), ("ape", "save_plot_pdf"), ("ape", "save_plot_png"), ("ape", "serialize_plot"),
    ("rpe", "save_results"), ("rpe", "save_plot_pdf"), ("rpe", "save_plot_png"), ("rpe", "serialize_plot"),
    ("traj", "save_as_tum"), ("traj", "save_as_tum_ref"), ("traj", "save_as_kitti"), ("traj", "save_as_kitti_ref"), ("traj", "save_table"),
    ("traj", "save_plot_pdf"), ("traj", "serialize_plot"),
    ("res", "save_table"), ("res", "save_plot_pdf"), ("res", "serialize_plot"), ("res", "save_table_titles"),
    ("res", "save_table_ignore_title"), ("res", "save_plot_pdf_ignore_title"),
    ("ape", "save_plot_pdf_split"), ("ape", "save_results_nosuffix"),
    ("traj", "save_as_tum_same_stem"),
    ("config", "generate"),
]
PLOT_SITES = {s for s in CLI_SITES if "plot" in s[1]}


def run_cli_site(case):
    app, site = case["site"]
    d = tempfile.mkdtemp(prefix="c17c_", dir=os.getcwd())
    ind = os.path.join(d, "in")
    os.makedirs(ind)
    P, Q, T = gen.bulk_trajectory(6, 11)
    P2 = P + 0.1
    open(os.path.join(ind, "traj_a.txt"), "w").write(rm.write_tum(T, P2, Q))
    open(os.path.join(ind, "reference.txt"), "w").write(rm.write_tum(T, P, Q))
    argv = []
    targets, kinds = [], []
    nw = [] if case["confirm"] else ["--no_warnings"]

    def tgt(name, kind):
        targets.append(os.path.join(d, name))
        kinds.append(kind)
        return os.path.join(d, name)
    if app in ("ape", "rpe"):
        argv = ["tum", os.path.join(ind, "reference.txt"), os.path.join(ind, "traj_a.txt"), "--silent"] + nw
        if site == "save_results":
            argv += ["--save_results", tgt("out.zip", "zip")]
        elif site == "save_results_nosuffix":
            argv += ["--save_results", tgt("results", "zip")]
        elif site == "save_plot_pdf_split":
            tgt("plots_raw.pdf", "pdf")
            tgt("plots_map.pdf", "pdf")
            argv += ["--save_plot", os.path.join(d, "plots.pdf"), "-c", cli.write_json(os.path.join(ind, "cfg.json"), {"plot_split": True})]
        elif site == "save_plot_pdf":
            argv += ["--save_plot", tgt("plots.pdf", "pdf")]
        elif site == "save_plot_png":
            tgt("plots_raw.png", "png")
            tgt("plots_map.png", "png")
            argv += ["--save_plot", os.path.join(d, "plots.png")]
        elif site == "serialize_plot":
            argv += ["--serialize_plot", tgt("plots.pickle", "pickle")]
    elif app == "traj" and site == "save_as_tum_same_stem":
        return _same_stem_case(case, d, ind, P, P2, Q, T, nw)
    elif app == "traj":
        argv = ["tum", os.path.join(ind, "traj_a.txt"), "--silent"] + nw
        if site.endswith("_ref"):
            argv += ["--ref", os.path.join(ind, "reference.txt")]
        if site.startswith("save_as_tum"):
            argv.append("--save_as_tum")
            tgt("traj_a.tum", "tum")
            if site.endswith("_ref"):
                tgt("reference.tum", "tum")
        elif site.startswith("save_as_kitti"):
            argv.append("--save_as_kitti")
            tgt("traj_a.kitti", "kitti")
            if site.endswith("_ref"):
                tgt("reference.kitti", "kitti")
        elif site == "save_table":
            argv += ["--save_table", tgt("table.csv", "csv")]
        elif site == "save_plot_pdf":
            argv += ["--save_plot", tgt("plots.pdf", "pdf")]
        elif site == "serialize_plot":
            argv += ["--serialize_plot", tgt("plots.pickle", "pickle")]
    elif app == "res":
        from evo.tools import file_interface
        from evo.core import result
        files = []
        for k in range(2):
            r = result.Result()
            title = "APE w.r.t. translation part (m)" if (k == 0 or site != "save_table_titles") else "APE w.r.t. rotation part (unit-less)"
            r.add_info({"title": title, "est_name": "est_%d" % k, "label": "APE (m)", "ref_name": "r"})
            r.add_stats({"rmse": 1.0 + k, "mean": 0.5, "median": 0.4, "std": 0.1, "min": 0.0, "max": 2.0, "sse": 4.0})
            r.add_np_array("error_array", np.array([1.0, 2.0, 0.5 + k]))
            r.add_np_array("timestamps", np.array([0.0, 1.0, 2.0]))
            p = os.path.join(ind, "r%d.zip" % k)
            file_interface.save_res_file(p, r)
            files.append(p)
        argv = files + ["--silent"] + nw
        if site.endswith("_ignore_title"):
            argv.append("--ignore_title")
        if site in ("save_table", "save_table_titles", "save_table_ignore_title"):
            argv += ["--save_table", tgt("table.csv", "csv")]
        elif site in ("save_plot_pdf", "save_plot_pdf_ignore_title"):
            argv += ["--save_plot", tgt("plots.pdf", "pdf")]
        elif site == "serialize_plot":
            argv += ["--serialize_plot", tgt("plots.pickle", "pickle")]
    elif app == "config":
        if not case["confirm"]:
            return "config:n/a"
        argv = ["generate", "--align", "--plot_mode", "xz", "-o", tgt("cfg.json", "json")]
    case["_pre"] = _prepare(d, targets, case["exists"])
    before = set(os.listdir(d))
    if app == "config":
        out = cli.run_config(argv, answers=[case["answer"]] * 4, cwd=d)
    elif site == "save_table_titles":
        # the first prompt (conflicting titles) is answered with 'y'; confirming that is no licence to overwrite files
        out = cli.run(app, argv, answers=(["y"] if case["confirm"] else []) + [case["answer"]] * 6, cwd=d)
    else:
        out = cli.run(app, argv, answers=[case["answer"]] * 6, cwd=d)
    if out.exit_code != 0:
        raise Mismatch("%s %s failed: %s" % (app, site, out.refused), observed="cli_failed", site="%s:%s" % (app, site))
    prompts = [p for p in out.prompts if "overwrite" in p]
    _judge(case, targets, prompts, kinds, before, d, "evo_%s:%s" % (app, site))
    return "evo_%s:%s" % (app, site)


def _same_stem_case(case, d, ind, P, P2, Q, T, nw):
    """two inputs export to the same file name: the second export meets a file that the first one has just written"""
    for sub, pos in (("a", P), ("b", P2 + 5.0)):
        os.makedirs(os.path.join(ind, sub))
        open(os.path.join(ind, sub, "traj.txt"), "w").write(rm.write_tum(T, pos, Q))
    target = os.path.join(d, "traj.tum")
    pre_existing = case["exists"] != "none"
    if pre_existing:
        open(target, "wb").write(_S())
    out = cli.run("traj", ["tum", os.path.join(ind, "a", "traj.txt"), os.path.join(ind, "b", "traj.txt"), "--save_as_tum", "--silent"] + nw,
                  answers=[case["answer"]] * 6, cwd=d)
    label = "evo_traj:save_as_tum_same_stem"
    if out.exit_code != 0:
        raise Mismatch("%s failed: %s" % (label, out.refused), observed="cli_failed", site=label)
    prompts = [p for p in out.prompts if "overwrite" in p]
    data = open(target, "rb").read() if os.path.exists(target) else None
    first = rm.write_tum(T, P, Q)
    second = rm.write_tum(T, P2 + 5.0, Q)

    def is_traj(data, which):
        try:
            t, p, q = rm.parse_tum(data.decode())
        except Exception:
            return False
        return bool(np.allclose(p, P if which == 1 else P2 + 5.0, rtol=0, atol=1e-12))
    if not case["confirm"]:
        if prompts:
            raise Mismatch("%s: prompt although warnings are disabled" % label, observed="spurious_prompt", site=label)
        if data is None or not is_traj(data, 2):
            raise Mismatch("%s: with --no_warnings the last export must be in place" % label, observed="not_written", site=label)
        return label
    expected_prompts = 2 if pre_existing else 1
    if len(prompts) != expected_prompts:
        raise Mismatch("%s: %d overwrite prompts, expected %d (the file written for the first trajectory exists when the second is saved%s)" % (
            label, len(prompts), expected_prompts, ", and the target existed before" if pre_existing else ""), observed="no_prompt", site=label)
    if case["answer"] == "y":
        if data is None or not is_traj(data, 2):
            raise Mismatch("%s: confirmed, but the last export is not in place" % label, observed="not_replaced", site=label)
    else:
        if pre_existing:
            if data != _S():
                raise Mismatch("%s: existing file changed although the answer was %r" % (label, case["answer"]), observed="overwritten", site=label, answer=case["answer"])
        elif data is None or not is_traj(data, 1):
            raise Mismatch("%s: the export of the first trajectory was overwritten by the second without confirmation (answer %r)" % (label, case["answer"]),
                           observed="overwritten", site=label, answer=case["answer"])
    return label


def sub_combo(case):
    case = dict(case)
    _CUR["content"] = b"" if case.get("content") == "empty" else SENTINEL
    _CUR["symlink"] = case.get("content") == "symlink"
    if "writer" in case:
        return run_writer(case)
    case["site"] = tuple(case["site"])
    return run_cli_site(case)


def combos(tier):
    out = []
    for w in WRITERS:
        for exists in ("none", "first", "last", "all"):
            if exists == "last" and w not in ("plot_png", "plot_pdf_split"):
                continue
            for confirm in (True, False):
                for ans in ANSWERS:
                    for ptype in ("str", "pathlib"):
                        if ptype == "pathlib" and w in ("plot_pdf", "plot_png", "plot_pdf_split", "serialize", "table"):
                            continue
                        if (not confirm or exists == "none") and ans not in ("y", "n"):
                            continue
                        out.append({"writer": w, "exists": exists, "confirm": confirm, "answer": ans, "ptype": ptype})
    for site in CLI_SITES:
        multi = site[1].endswith("_ref") or site[1] in ("save_plot_png", "save_plot_pdf_split")
        for exists in ("none", "first", "last", "all"):
            if exists == "last" and not multi:
                continue
            for confirm in (True, False):
                for ans in ANSWERS:
                    if (not confirm or exists == "none") and ans not in ("y", "n"):
                        continue
                    out.append({"site": list(site), "exists": exists, "confirm": confirm, "answer": ans})
    # existing targets that are empty files (touch, a crashed earlier run): the decisive combinations once more
    base = list(out)
    out += [dict(c, content="empty") for c in base if c["exists"] in ("first", "all") and c["confirm"] and c["answer"] in ("n", "y", "")
            and c.get("ptype", "str") == "str"]
    # ... that are symbolic links to regular files; and the writers called with confirm_overwrite as a positional argument
    out += [dict(c, content="symlink") for c in base if c["exists"] in ("first", "all") and c["confirm"] and c["answer"] in ("n", "y")
            and c.get("ptype", "str") == "str" and (c.get("writer") in ("tum", "kitti", "res", "table") or ("site" in c and c["site"][1] in (
                "save_results", "save_as_tum", "save_table", "generate")))]
    out += [dict(c, positional=True) for c in base if c.get("writer") in ("tum", "kitti", "res") and c["exists"] in ("first", "none")
            and c["answer"] in ("n", "y")]
    if tier == "quick":
        heavy = lambda c: ("site" in c and tuple(c["site"]) in PLOT_SITES) or c.get("writer", "").startswith("plot") or c.get("writer") == "serialize"
        light = [c for c in out if not heavy(c)]
        hv = [c for c in out if heavy(c)]
        # a slice of the plot combinations: the decisive ones (exists, confirm on, answers y / n / Y)
        hv = [c for c in hv if c["exists"] in ("all", "first") and c["confirm"] and c["answer"] in ("y", "n", "Y")][::2] + \
             [c for c in hv if c["exists"] == "last" and c["confirm"] and c["answer"] == "n"] + \
             [c for c in hv if c["exists"] == "all" and not c["confirm"] and c["answer"] == "n"][::2]
        return light + hv
    return out


COMBO = Sub("combo", sub_combo)


def custom_product(ctx):
    from vf.runner import execute_case
    rep = Report()
    cs = combos(ctx["tier"])
    n_eval = n_nt = 0
    sample = None
    classes = {}
    for idx, case in enumerate(cs):
        if idx % ctx["nshards"] != ctx["shard"]:
            continue
        inner = Report()
        v = execute_case(PROPERTY, COMBO, dict(case), inner, counting=True)
        n_eval += 1
        n_nt += 1 if case["exists"] != "none" else 0
        for k, c in inner.classes.items():
            classes[k] = classes.get(k, 0) + c
        if sample is None and case["exists"] != "none":
            sample = case
        if v is not None:
            v["case"] = {k: val for k, val in case.items() if not k.startswith("_")}
            rep.violations.append(v)
    rep.count_many("product", n_eval, n_nt, None, sample)
    for k, c in classes.items():
        rep.classes["product>" + k] = c
    rep.exhaustive["product"] = (ctx["tier"] == "thorough") and not rep.violations
    return rep


SUBS = [
    COMBO,
    Sub("product", kind="custom", custom=custom_product, n_quick=1, n_thorough=1, shards_quick=16, shards_thorough=16,
        exhaustive_tiers=("thorough",)),
]
COMBO.n_quick = 0
COMBO.n_thorough = 0
