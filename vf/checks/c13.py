"""C13 — Merging and tabulating results averages or concatenates exactly as documented."""
import csv
import math
import os
import tempfile

import numpy as np
from hypothesis import strategies as st

from vf import gen, refmodel as rm, snapshot, cli
from vf.core import Mismatch, Sub

from evo.core import result as evo_result
from evo.core.result import Result, ResultException
from evo.tools import file_interface

PROPERTY = "C13"
RULE = ("Hypothesis lists of 1-8 results: arbitrary finite statistics, 1-3 array keys with equal / unequal / empty lengths (1-D "
        "and a 4x4 key), key sets equal or differing in one statistic or array key, any order; evo_res driven in-process on "
        "result archives written by evo (from evo_ape/evo_rpe-like results) with --use_filenames, --merge, --save_table, "
        "duplicate labels. Non-trivial = >= 2 results and (append strategy or >= 2 array keys); distinct by SHA-1"
        ' Round-3 additions: command-line order differing from file-name order, label of the merged row.')
ASSUMPTIONS = ["when only some array keys differ in length the statement can be read per array or globally: for the equal-length "
               "keys of such a mixed case both element-wise mean and concatenation are accepted (class counted)",
               "table read back with the csv module; numbers compared with relative tolerance 1e-12"]
STAT_KEYS = ["rmse", "mean", "median", "std", "min", "max", "sse"]


def build_results(case):
    out = []
    for idx, r in enumerate(case["results"]):
        res = Result()
        info = dict(r["info"])
        if info.get("k", 0) % 2 and idx > 0:
            # runs differ in their bookkeeping: a later result carries an info entry the first one lacks
            info["extra_note_%d" % idx] = "only in result %d" % idx
        res.add_info(info)
        res.add_stats({k: float(v) for k, v in r["stats"].items()})
        for arr in r["arrays"]:
            name = arr["name"]
            a = np.asarray(arr["data"], dtype=float)
            if arr["shape"] == "4x4":
                a = np.resize(a if a.size else np.zeros(1), 16).reshape(4, 4)
            res.add_np_array(name, a)
        out.append(res)
    return out


def sub_merge(case):
    rs = build_results(case)
    cp = case.get("copies")
    if cp and len(rs) > 1:
        # repeated runs that produced identical results - except that one of them may carry an extra key
        import copy as _copy
        rs = [_copy.deepcopy(rs[0]) for _ in rs]
        k = int(cp["pos"]) % len(rs)
        if cp["extra"] == "array":
            rs[k].add_np_array("extra_array", np.arange(3, dtype=float))
        elif cp["extra"] == "stat":
            rs[k].add_stats({"extra_stat": 1.0})
    snaps = [snapshot.snapshot(r) for r in rs]
    n = len(rs)
    keys_equal = all(set(a.stats) == set(b.stats) and set(a.np_arrays) == set(b.np_arrays) for a, b in zip(rs, rs[1:]))
    if case["as_tuple"]:
        arg = tuple(rs)
    else:
        arg = list(rs)
    try:
        m = evo_result.merge_results(arg)
    except ResultException:
        if keys_equal or n == 1:
            raise Mismatch("results with equal key sets were refused", observed="spurious_refusal")
        _unchanged(snaps, rs)
        return "refused_keys"
    if n > 1 and not keys_equal:
        raise Mismatch("results with different statistic/array keys were merged", observed="missing_refusal")
    _unchanged(snaps, rs)
    if not isinstance(m, Result):
        raise Mismatch("merge returned %s" % type(m).__name__, observed="type")
    if n == 1:
        if snapshot.snapshot(m) != snaps[0]:
            raise Mismatch("merging a single result changed it", observed="single_changed")
        return "single"
    if m.info != rs[0].info:
        raise Mismatch("merged info is not the first result's: %r" % (m.info,), observed="info")
    if set(m.stats) != set(rs[0].stats):
        raise Mismatch("merged statistic keys differ", observed="stats_keys")
    for k in rs[0].stats:
        vals = [r.stats[k] for r in rs]
        exp = math.fsum(vals) / n
        tol = 1e-12 * math.fsum(abs(v) for v in vals) + 1e-300
        if not abs(float(m.stats[k]) - exp) <= tol:
            raise Mismatch("merged statistic %s is %r, arithmetic mean of %s is %r" % (k, m.stats[k], vals, exp), observed="stats_mean", key=k)
    if set(m.np_arrays) != set(rs[0].np_arrays):
        raise Mismatch("merged array keys differ", observed="array_keys")
    per_key_equal = {k: all(r.np_arrays[k].size == rs[0].np_arrays[k].size for r in rs) for k in rs[0].np_arrays}
    all_equal = all(per_key_equal.values())
    mixed = (not all_equal) and any(per_key_equal.values())
    for k in rs[0].np_arrays:
        got = np.asarray(m.np_arrays[k], dtype=float)
        arrs = [np.asarray(r.np_arrays[k], dtype=float) for r in rs]
        mean_ok = concat_ok = False
        if per_key_equal[k]:
            exp = np.zeros_like(arrs[0])
            for idx in np.ndindex(*arrs[0].shape):
                exp[idx] = math.fsum(a[idx] for a in arrs) / n
            scale = np.zeros_like(arrs[0])
            for a in arrs:
                scale = scale + np.abs(a)
            mean_ok = got.shape == exp.shape and bool(np.all(np.abs(got - exp) <= 1e-12 * scale + 1e-300))
        cat = np.concatenate([a.reshape(-1) for a in arrs])
        concat_ok = got.reshape(-1).shape == cat.shape and np.array_equal(got.reshape(-1), cat)
        if all_equal:
            if not mean_ok:
                raise Mismatch("array %s: all inputs have equal lengths but the result is not the element-wise mean" % k, observed="array_mean", key=k)
        elif per_key_equal[k]:
            # not all inputs have equal array lengths: every array is concatenated, also one whose own length happens to agree
            if not concat_ok:
                raise Mismatch("array %s: the inputs do not all have equal array lengths, but this array is not the concatenation in input order%s" % (
                    k, " (it is the element-wise mean)" if mean_ok else ""), observed="array_mixed", key=k)
        else:
            if not concat_ok:
                raise Mismatch("array %s: lengths differ but the result is not the concatenation in input order (got size %d, expected %d)" % (
                    k, got.size, cat.size), observed="array_concat", key=k)
    return "mixed" if mixed else ("average" if all_equal else "append")


def _unchanged(snaps, rs):
    for i, (s, r) in enumerate(zip(snaps, rs)):
        d = snapshot.diff(s, r)
        if d:
            raise Mismatch("merge_results modified input result #%d: %s" % (i, d), observed="input_modified")


def sub_empty(case):
    for arg in ([], (), None, [1, 2]):
        try:
            evo_result.merge_results(arg)
        except (ValueError, ResultException, TypeError):
            continue
        raise Mismatch("merge_results(%r) did not raise" % (arg,), observed="missing_refusal")


# ---- evo_res table --------------------------------------------------------------------------------

def _parse_table(path):
    with open(path, newline="") as f:
        rows = list(csv.reader(f))
    header = rows[0][1:]
    table = {}
    for r in rows[1:]:
        if r[0] in table:
            raise Mismatch("label %r occurs twice in the table" % r[0], observed="table_label")
        table[r[0]] = dict(zip(header, r[1:]))
    return header, table


def sub_table(case):
    d = tempfile.mkdtemp(prefix="c13_", dir=os.getcwd())
    rs = build_results(case)
    files = []
    labels = []
    for i, r in enumerate(rs):
        for k in STAT_KEYS:
            r.stats.setdefault(k, float(i) + 0.5)
        # result files as evo_ape/evo_rpe write them: >= 1 error value, companion arrays of the same length
        ea = np.abs(np.asarray(r.np_arrays.get("error_array", np.zeros(0)), dtype=float)).reshape(-1)
        if ea.size == 0:
            ea = np.arange(3, dtype=float) + i
        r.np_arrays["error_array"] = ea
        if "timestamps" in r.np_arrays:
            r.np_arrays["timestamps"] = 100.0 + np.arange(ea.size, dtype=float)
        r.info.setdefault("title", "APE w.r.t. translation part (m)")
        r.info.setdefault("label", "APE (m)")
        est_name = case["est_names"][i % len(case["est_names"])]
        if not case["dup_labels"]:
            est_name = "%s_%d" % (est_name, i)
        r.info["est_name"] = os.path.join(case["est_dir"], est_name) if case["est_dir"] else est_name
        r.info["ref_name"] = "reference_%d" % (7 - i)
        # file names whose lexicographic order need not be the order on the command line
        p = os.path.join(d, "res_%d.zip" % ((len(rs) - 1 - i) if case.get("rev_names") else i))
        file_interface.save_res_file(p, r)
        files.append(p)
        labels.append(p if case["use_filenames"] else os.path.basename(r.info["est_name"]))
    table = os.path.join(d, "table.csv")
    if case["merge"] and case.get("dup_file") and len(files) > 1:
        # the same result file listed twice counts twice in the merge
        files = files + [files[0]]
        rs = rs + [rs[0]]
    argv = files + ["--save_table", table, "--no_warnings", "--silent"]
    if case["use_filenames"]:
        argv.append("--use_filenames")
    if case["merge"]:
        argv.append("--merge")
    if case["ignore_title"]:
        argv.append("--ignore_title")
    out = cli.run("res", argv, cwd=d)
    dup = len(set(labels)) != len(labels) and not case["merge"]
    keys_equal = all(set(a.stats) == set(b.stats) and set(a.np_arrays) == set(b.np_arrays) for a, b in zip(rs, rs[1:]))
    if case["merge"] and not keys_equal:
        if out.exit_code == 0 and os.path.exists(table):
            raise Mismatch("evo_res --merge tabulated results with different keys", observed="missing_refusal")
        return "merge_refused"
    if dup:
        if out.exit_code == 0 or os.path.exists(table):
            raise Mismatch("duplicate labels %s were tabulated (exit code %r)" % (labels, out.exit_code), observed="duplicate_labels")
        return "duplicate_refused"
    if out.exit_code != 0:
        raise Mismatch("evo_res failed: %s" % out.refused, observed="cli_failed")
    if not os.path.exists(table):
        raise Mismatch("evo_res --save_table wrote no table", observed="no_table")
    header, tab = _parse_table(table)
    if case["merge"]:
        if len(tab) != 1:
            raise Mismatch("merged table has %d rows" % len(tab), observed="table_rows")
        row = list(tab.values())[0]
        n = len(rs)
        # the info of the first result GIVEN is kept: the merged row carries its estimate name
        first_label = os.path.basename(rs[0].info["est_name"])
        if list(tab)[0] != first_label:
            raise Mismatch("merged row is labelled %r, the first result given is %r" % (list(tab)[0], first_label), observed="table_label", what="merge")
        for k in rs[0].stats:
            exp = math.fsum(r.stats[k] for r in rs) / n
            _cmp_cell(row, k, exp, "merged", math.fsum(abs(r.stats[k]) for r in rs))
        return "merge"
    if set(tab) != set(labels):
        raise Mismatch("table labels %s, expected %s" % (sorted(tab), sorted(labels)), observed="table_label")
    allkeys = set()
    for r in rs:
        allkeys |= set(r.stats)
    for lab, r in zip(labels, rs):
        row = tab[lab]
        for k in allkeys:
            if k in r.stats:
                _cmp_cell(row, k, r.stats[k], lab, abs(r.stats[k]))
            else:
                if row.get(k, "") not in ("", "nan", "NaN"):
                    raise Mismatch("table cell [%s, %s] = %r although the file has no such statistic" % (lab, k, row.get(k)), observed="table_value")
        # columns that are not statistics of any file must be empty (pandas keeps unused index levels as empty columns)
        for k in set(header) - allkeys:
            if row.get(k, "") not in ("", "nan", "NaN"):
                raise Mismatch("table cell [%s, %s] = %r is not a statistic stored in any result file" % (lab, k, row.get(k)), observed="table_value")
    return "table/%s" % ("filenames" if case["use_filenames"] else "est_name")


def _cmp_cell(row, k, exp, lab, scale):
    if k not in row:
        raise Mismatch("table lacks column %s" % k, observed="table_columns")
    try:
        got = float(row[k])
    except ValueError:
        raise Mismatch("table cell [%s, %s] = %r is not a number" % (lab, k, row[k]), observed="table_value")
    if not abs(got - exp) <= 1e-12 * scale + 1e-300:
        raise Mismatch("table cell [%s, %s] = %r, the file stores %r" % (lab, k, got, exp), observed="table_value", key=k)


# ---- strategies -----------------------------------------------------------------------------------

val = st.one_of(gen.fl(-1e6, 1e6), gen.log_uniform(-12, 9), st.sampled_from([0.0, 1.0, 1 / 3]))


def st_results(min_n, max_n, table=False):
    def mk(n, nstat, arr_names, diff_kind, lens_mode):
        def one(i):
            stats_keys = STAT_KEYS[:nstat]
            arr_keys = list(arr_names)
            if diff_kind == "stat" and i == n - 1 and n > 1:
                stats_keys = stats_keys[:-1] + ["extra"]
            if diff_kind == "array" and i == n - 1 and n > 1:
                arr_keys = arr_keys[:-1] + ["other"]
            arrays = []
            for j, name in enumerate(arr_keys):
                if name == "tf":
                    arrays.append(st.fixed_dictionaries({"name": st.just(name), "data": st.lists(val, min_size=16, max_size=16), "shape": st.just("4x4")}))
                else:
                    if lens_mode == "equal":
                        ln = st.just(3 + j)
                    elif lens_mode == "first_differs" and j > 0:
                        ln = st.just(2)
                    else:
                        ln = st.integers(0, 6)
                    arrays.append(ln.flatmap(lambda L, name=name: st.fixed_dictionaries({"name": st.just(name), "data": st.lists(val, min_size=L, max_size=L), "shape": st.just("1d")})))
            return st.fixed_dictionaries({
                "info": st.fixed_dictionaries({"title": st.sampled_from(["APE w.r.t. translation part (m)", "RPE"]), "k": st.integers(0, 3)}),
                "stats": st.fixed_dictionaries({k: val for k in stats_keys}),
                "arrays": st.tuples(*arrays).flatmap(lambda t: st.permutations(list(t)))})
        return st.tuples(*[one(i) for i in range(n)]).map(list)

    base = st.tuples(st.integers(min_n, max_n), st.integers(1, 7),
                     st.sampled_from([["error_array"], ["error_array", "timestamps"], ["error_array", "timestamps", "tf"], ["tf"]]),
                     st.sampled_from(["none", "none", "none", "stat", "array"]),
                     st.sampled_from(["equal", "free", "first_differs"])).flatmap(lambda t: mk(*t))
    return base


st_merge = st.fixed_dictionaries({"results": st_results(1, 8), "as_tuple": st.booleans(),
                                  "copies": st.one_of(st.none(), st.none(), st.none(), st.fixed_dictionaries({
                                      "extra": st.sampled_from([None, "array", "stat"]), "pos": st.integers(0, 7)}))})
st_table = st.fixed_dictionaries({
    "results": st_results(1, 5), "use_filenames": st.booleans(), "merge": st.booleans(), "ignore_title": st.just(True),
    "dup_labels": st.booleans(), "est_names": st.lists(st.sampled_from(["est.txt", "a.tum", "traj", "ORB_SLAM", "x y"]), min_size=1, max_size=3),
    "est_dir": st.sampled_from(["", "/data/run1", "rel/dir"]), "rev_names": st.booleans(), "dup_file": st.sampled_from([False, False, True])})


def _nt(case):
    rs = case["results"]
    if len(rs) < 2:
        return False
    first = {a["name"]: len(a["data"]) for a in rs[0]["arrays"]}
    uneven = any(len(a["data"]) != first.get(a["name"], -1) for r in rs for a in r["arrays"])
    return uneven or len(first) >= 2


SUBS = [
    Sub("merge", sub_merge, st_merge, 2500, 80000, nontrivial=_nt),
    Sub("empty", sub_empty, st.just({}), 1, 1),
    Sub("table", sub_table, st_table, 200, 6000, nontrivial=lambda c: len(c["results"]) >= 2, shards_quick=8),
]
