"""C09 — Lie-group helpers satisfy the group laws on all of SO(3), SE(3) and Sim(3)."""
import math

import numpy as np
from hypothesis import strategies as st

from vf import gen, refmodel as rm
from vf.core import Mismatch, Sub

from evo.core import lie_algebra as lie

PROPERTY = "C09"
LEVEL = "exploration"
RULE = ("Hypothesis-generated rotations (uniform quaternions, axis-angle with angles from the special "
        "list {0,1e-16..1e-3,pi/2,pi-1e-3..pi-1e-12,pi} and dense bands next to 0 and pi, products of "
        "exact quarter turns), translations 1e-6..1e9, scales 1e-4..1e4, near-miss matrices at "
        "controlled distance; non-trivial = angle within 1e-3 of 0 or pi, or |t| >= 1e6, or "
        "|log10 s| >= 2, or a near-miss matrix; distinct by SHA-1 of the canonical case"
        ' Round-3 addition: a history of helper calls on genuine elements before the membership queries (process-wide numeric state).')
ASSUMPTIONS = ["reference Rodrigues/atan2-angle/quaternion conversions in vf/refmodel.py are correct",
               "tolerances: 1e-9 abs for exp/log/angle, 64*eps*(1+|t|) for SE(3) products, 1e-12 rel for the Sim(3) scale"]
PI = math.pi
EPS = rm.EPS


def _close(a, b, tol, what, **tags):
    a = np.asarray(a, dtype=float)
    b = np.asarray(b, dtype=float)
    if a.shape != b.shape:
        raise Mismatch("%s: shape %s vs %s" % (what, a.shape, b.shape), observed="shape", **tags)
    d = float(np.max(np.abs(a - b))) if a.size else 0.0
    if not (d <= tol):
        raise Mismatch("%s: max abs deviation %.3e > %.3e\nexpected=%s\nactual=%s" % (what, d, tol, b.tolist(), a.tolist()),
                       observed="value", **tags)


def _near_end(theta):
    return theta <= 1e-3 or theta >= PI - 1e-3


# ---- 1. exp(log R) = R, angle --------------------------------------------------------------

def sub_exp_log(case):
    R = gen.rot_matrix(case["rot"])
    v = lie.so3_log(R)
    _close(lie.so3_exp(v), R, 1e-9, "exp(log R) != R")
    th = rm.rot_angle(R)
    ang = lie.so3_log_angle(R)
    if not (0.0 <= ang <= PI + 1e-12):
        raise Mismatch("angle %r outside [0, pi]" % ang, observed="range")
    _close(ang, th, 1e-9, "so3_log_angle != reference angle")
    _close(float(np.linalg.norm(v)), th, 1e-9, "|log R| != reference angle")
    _close(lie.so3_log_angle(R, degrees=True), math.degrees(th), 1e-7, "angle in degrees")
    K = lie.so3_log(R, return_skew=True)
    _close(K, rm.hat(v), 0.0, "return_skew is not hat(log R)")
    _close(K, -K.T, 0.0, "skew log not skew-symmetric")
    return "near_end" if _near_end(th) else "generic"


def nt_exp_log(case):
    return _near_end(rm.rot_angle(gen.rot_matrix(case["rot"])))


# ---- 2. log(exp v) = v ----------------------------------------------------------------------

def sub_log_exp(case):
    axis = gen.unit_axis(case["axis"])
    th = float(case["theta"])
    v = axis * th
    R = lie.so3_exp(v)
    _close(R, rm.rodrigues(v), 1e-12, "so3_exp != reference Rodrigues")
    w = lie.so3_log(R)
    if th <= PI - 1e-6:
        _close(w, v, 1e-9, "log(exp v) != v")
    else:
        anti = -axis * (2 * PI - th)
        d1 = float(np.max(np.abs(w - v)))
        d2 = float(np.max(np.abs(w - anti)))
        if min(d1, d2) > 1e-9:
            raise Mismatch("log(exp v) is neither v nor its antipodal representative: v=%s log=%s" % (v.tolist(), w.tolist()),
                           observed="value")
    _close(lie.so3_exp(w), R, 1e-9, "exp(log(exp v)) != exp v")
    _close(lie.so3_log_angle(R), th, 1e-9, "angle of exp(v) != |v|")
    return "near_end" if _near_end(th) else "generic"


# ---- 3. hat / vee ----------------------------------------------------------------------------

def sub_hat_vee(case):
    v = np.array(case["v"], dtype=float)
    M = lie.hat(v)
    if M.shape != (3, 3):
        raise Mismatch("hat shape %s" % (M.shape,), observed="shape")
    if not np.array_equal(M, -M.T):
        raise Mismatch("hat(v) not skew-symmetric", observed="value")
    if not np.array_equal(M, rm.hat(v)):
        raise Mismatch("hat(v) != reference %s vs %s" % (M.tolist(), rm.hat(v).tolist()), observed="value")
    if not np.array_equal(lie.vee(M), v):
        raise Mismatch("vee(hat(v)) != v exactly: %s -> %s" % (v.tolist(), lie.vee(M).tolist()), observed="value")
    if not np.array_equal(lie.hat(lie.vee(M)), M):
        raise Mismatch("hat(vee(M)) != M", observed="value")
    # cross-product meaning: hat(v) u = v x u
    u = np.array(case["u"], dtype=float)
    _close(M @ u, np.cross(v, u), 1e-9 * (1 + float(np.abs(v).max()) * float(np.abs(u).max())), "hat(v) u != v x u")


# ---- 4. SE(3) -----------------------------------------------------------------------------------

def _pose(d):
    R = gen.rot_matrix(d["rot"])
    t = np.asarray(d["t"], dtype=float) * float(d["mag"])
    return R, t


def sub_se3(case):
    RA, tA = _pose(case["A"])
    RB, tB = _pose(case["B"])
    A = lie.se3(RA, tA)
    B = lie.se3(RB, tB)
    _close(A, rm.se3(RA, tA), 0.0, "se3(R,t) assembly")
    if not np.array_equal(lie.so3_from_se3(A), RA):
        raise Mismatch("so3_from_se3", observed="value")
    tol = 64 * EPS * (1 + max(np.abs(tA).max(), np.abs(tB).max()))
    Ai = lie.se3_inverse(A)
    _close(Ai, rm.se3_inv(A), tol, "se3_inverse != reference inverse")
    _close(A @ Ai, np.eye(4), tol, "P * P^-1 != I")
    _close(Ai @ A, np.eye(4), tol, "P^-1 * P != I")
    _close(lie.relative_se3(A, B), rm.se3_inv(A) @ B, 4 * tol, "rel(A,B) != A^-1 B")
    _close(lie.relative_se3(A, A), np.eye(4), tol, "rel(A,A) != I")
    _close(lie.relative_so3(RA, RB), RA.T @ RB, 1e-15, "relative_so3 != A^T B")
    # composition law: rel(A,B) = rel(A,C) rel(C,B) for C = B
    _close(A @ lie.relative_se3(A, B), B, 4 * tol, "A * rel(A,B) != B")
    if not lie.is_se3(Ai):
        raise Mismatch("inverse of an SE(3) element is rejected by is_se3", observed="reject_genuine")
    big = max(np.abs(tA).max(), np.abs(tB).max()) >= 1e6
    return "big_t" if big else "generic"


# ---- 5. Sim(3) ----------------------------------------------------------------------------------

def sub_sim3(case):
    R, t = _pose(case["P"])
    s = float(case["s"])
    S = lie.sim3(R, t, s)
    _close(S, rm.sim3(R, t, s), 0.0, "sim3(R,t,s) assembly")
    got = float(lie.sim3_scale(S))
    if not (abs(got - s) <= 1e-12 * s):
        raise Mismatch("sim3_scale: %r != %r" % (got, s), observed="value")
    Si = lie.sim3_inverse(S)
    tol = 64 * EPS * (1 + np.abs(t).max() * max(1.0, 1 / s)) * max(1.0, s, 1 / s)
    near_one = abs(s - 1.0) <= 1e-4 and s != 1.0
    _close(S @ Si, np.eye(4), tol, "S * S^-1 != I")
    _close(Si @ S, np.eye(4), tol, "S^-1 * S != I")
    _close(Si, rm.sim3_inv(S), tol, "sim3_inverse != reference")
    gi = float(lie.sim3_scale(Si))
    if not (abs(gi - 1 / s) <= 1e-12 / s):
        raise Mismatch("scale of inverse %r != %r" % (gi, 1 / s), observed="value")
    if not lie.is_sim3(S):
        raise Mismatch("genuine Sim(3) element rejected (s=%r)" % s, observed="reject_genuine")
    if not lie.is_sim3(S, s):
        raise Mismatch("genuine Sim(3) element rejected with explicit scale", observed="reject_genuine")
    if not lie.is_sim3(Si):
        raise Mismatch("inverse Sim(3) element rejected", observed="reject_genuine")
    # effect on a point: S p = s R p + t
    p = np.array([0.3, -1.7, 2.9, 1.0])
    _close((S @ p)[:3], s * (R @ p[:3]) + t, tol * 8, "S p != s R p + t")
    return "extreme_scale" if abs(math.log10(s)) >= 2 else ("scale_near_1" if near_one else "generic")


def sub_int_matrices(case):
    """hand-written style elements: quarter-turn rotations, integer translation and scale, stored with an INTEGER dtype
    (as in evo's own test data); inverses and relative poses are fractional and must not be truncated"""
    k = int(case["qk"])
    R = np.round(gen.rot_matrix({"quarter": [k % 4, (k // 4) % 4, (k // 16) % 4]}))
    t = np.asarray(case["t"], dtype=float)
    s = int(case["s"])
    S = np.eye(4, dtype=np.int64)
    S[:3, :3] = (s * R).astype(np.int64)
    S[:3, 3] = t.astype(np.int64)
    Sf = S.astype(float)
    Si = np.asarray(lie.sim3_inverse(S), dtype=float)
    _close(Sf @ Si, np.eye(4), 1e-12 * (1 + np.abs(t).max()), "S * S^-1 != I for an integer-dtype Sim(3) matrix")
    gi = float(lie.sim3_scale(Si))
    if not abs(gi - 1.0 / s) <= 1e-12:
        raise Mismatch("scale of the inverse of an integer-dtype Sim(3) matrix is %r, expected %r" % (gi, 1.0 / s), observed="value")
    if not lie.is_sim3(S) or not lie.is_sim3(S, s):
        raise Mismatch("genuine integer-dtype Sim(3) element rejected", observed="reject_genuine")
    P = np.eye(4, dtype=np.int64)
    P[:3, :3] = R.astype(np.int64)
    P[:3, 3] = t.astype(np.int64)
    Pf = P.astype(float)
    _close(Pf @ np.asarray(lie.se3_inverse(P), dtype=float), np.eye(4), 1e-12 * (1 + np.abs(t).max()), "P * P^-1 != I for an integer-dtype SE(3) matrix")
    _close(np.asarray(lie.relative_se3(P, S if s == 1 else P), dtype=float), np.eye(4), 1e-12 * (1 + np.abs(t).max()), "rel(A, A) != I (integer dtype)")
    if not lie.is_se3(P):
        raise Mismatch("genuine integer-dtype SE(3) element rejected", observed="reject_genuine")
    return "int_matrix/s%d" % min(s, 3)


# ---- 6. angle metric ----------------------------------------------------------------------------

def _d(A, B):
    return lie.so3_log_angle(lie.relative_so3(A, B))


def sub_metric(case):
    A = gen.rot_matrix(case["A"])
    B = gen.rot_matrix(case["B"])
    C = gen.rot_matrix(case["C"])
    dab = _d(A, B)
    ref = rm.rot_angle_between(A, B)
    _close(dab, ref, 1e-9, "d(A,B) != reference angle")
    if not (0.0 <= dab <= PI + 1e-12):
        raise Mismatch("d(A,B)=%r outside [0,pi]" % dab, observed="range")
    _close(_d(B, A), dab, 1e-9, "symmetry d(B,A) != d(A,B)")
    _close(_d(A, A), 0.0, 1e-9, "d(A,A) != 0")
    same = float(np.max(np.abs(A - B))) <= 1e-12
    if same and dab > 1e-9:
        raise Mismatch("equal rotations with non-zero distance", observed="value")
    if dab <= 1e-12 and float(np.max(np.abs(A - B))) > 1e-9:
        raise Mismatch("distinct rotations with zero distance", observed="value")
    _close(_d(C @ A, C @ B), dab, 1e-9, "left invariance")
    _close(_d(A @ C, B @ C), dab, 1e-9, "right invariance")
    dac = _d(A, C)
    dcb = _d(C, B)
    if dab > dac + dcb + 1e-9:
        raise Mismatch("triangle inequality: %r > %r + %r" % (dab, dac, dcb), observed="triangle")
    return "near_end" if _near_end(ref) else "generic"


# ---- 7. membership ----------------------------------------------------------------------------

def _sym_unit(vals):
    S = np.array([[vals[0], vals[3], vals[4]], [vals[3], vals[1], vals[5]], [vals[4], vals[5], vals[2]]], dtype=float)
    n = float(np.linalg.norm(S))
    if n < 1e-3:
        S = np.diag([1.0, -1.0, 0.0])
        n = float(np.linalg.norm(S))
    return S / n


def _exercise_helpers(R, t, s):
    """a short history of helper calls on genuine elements: none of them may change what a later call returns"""
    lie.se3_inverse(lie.se3(R, t))
    lie.sim3_inverse(lie.sim3(R, t, s))
    lie.relative_se3(lie.se3(R, t), lie.se3(R.T, -t))
    lie.so3_exp(lie.so3_log(R))
    lie.sim3_scale(lie.sim3(R, t, s)) if hasattr(lie, "sim3_scale") else None


def sub_member(case):
    R, t = _pose(case["P"])
    s = float(case["s"])
    near = case["near"]
    if case.get("history"):
        _exercise_helpers(R, t, s)
    kind = near["kind"]
    d = float(near["d"])
    # genuine elements first
    if kind == "genuine":
        n = int(near["n"])
        Rn = np.eye(3)
        for _ in range(n):
            Rn = Rn @ R
        if rm.orthonormality_defect(Rn) <= 1e-8:
            if not lie.is_so3(Rn):
                raise Mismatch("genuine SO(3) element (product of %d rotations) rejected" % n, observed="reject_genuine")
            if not lie.is_se3(lie.se3(Rn, t)):
                raise Mismatch("genuine SE(3) element rejected", observed="reject_genuine")
            if not lie.is_sim3(lie.sim3(Rn, t, s)):
                raise Mismatch("genuine Sim(3) element rejected", observed="reject_genuine")
            if not lie.is_sim3(lie.se3(Rn, t)):
                raise Mismatch("SE(3) element rejected as Sim(3) with scale 1", observed="reject_genuine")
        return "genuine"
    if kind == "reflection":
        F = np.eye(3)
        F[int(near["i"]) % 3, int(near["i"]) % 3] = -1.0
        M = R @ F
        if lie.is_so3(M):
            raise Mismatch("reflection accepted by is_so3", observed="accept_nearmiss", near="reflection")
        if lie.is_se3(lie.se3(M, t)):
            raise Mismatch("reflection accepted by is_se3", observed="accept_nearmiss", near="reflection")
        T = np.eye(4)
        T[:3, :3] = s * M
        T[:3, 3] = t
        acc = lie.is_sim3(T)
        acc2 = lie.is_sim3(T, s)
        if acc or acc2:
            raise Mismatch("reflection accepted by is_sim3", observed="accept_nearmiss", near="reflection")
        return "reflection"
    if kind == "scaled":
        f = 1 + d if near["i"] % 2 else 1 - d
        M = f * R
        if lie.is_so3(M):
            raise Mismatch("scaled rotation block (factor %r) accepted by is_so3" % f, observed="accept_nearmiss", near="scaled")
        if lie.is_se3(lie.se3(M, t)):
            raise Mismatch("scaled rotation block accepted by is_se3", observed="accept_nearmiss", near="scaled")
        if lie.is_sim3(lie.se3(M, t), 1.0):
            raise Mismatch("scaled block accepted by is_sim3 with expected scale 1", observed="accept_nearmiss", near="scaled")
        return "scaled"
    if kind == "sheared":
        S = _sym_unit(near["sym"])
        S = S - np.trace(S) / 3.0 * np.eye(3)  # traceless: not a pure scaling
        nS = float(np.linalg.norm(S))
        if nS < 1e-3:
            S = np.diag([1.0, -1.0, 0.0]) / math.sqrt(2)
        else:
            S = S / nS
        M = R @ (np.eye(3) + d * S)
        if lie.is_so3(M):
            raise Mismatch("sheared block (d=%r) accepted by is_so3" % d, observed="accept_nearmiss", near="sheared")
        if lie.is_se3(lie.se3(M, t)):
            raise Mismatch("sheared block accepted by is_se3", observed="accept_nearmiss", near="sheared")
        T = np.eye(4)
        T[:3, :3] = s * M
        T[:3, 3] = t
        if lie.is_sim3(T):
            raise Mismatch("sheared block accepted by is_sim3", observed="accept_nearmiss", near="sheared")
        return "sheared"
    if kind == "bottom":
        T = lie.se3(R, t)
        j = int(near["i"]) % 4
        T[3, j] += max(d, 1e-6)
        if lie.is_se3(T):
            raise Mismatch("wrong bottom row accepted by is_se3", observed="accept_nearmiss", near="bottom")
        T2 = lie.sim3(R, t, s)
        T2[3, j] += max(d, 1e-6)
        if lie.is_sim3(T2):
            raise Mismatch("wrong bottom row accepted by is_sim3", observed="accept_nearmiss", near="bottom")
        return "bottom"
    raise ValueError(kind)


# ---- strategies -------------------------------------------------------------------------------

st_t = st.lists(gen.unit_f, min_size=3, max_size=3)
st_pose = st.fixed_dictionaries({"rot": gen.st_rotation, "t": st_t, "mag": gen.log_uniform(-6, 9)})
st_scale = st.one_of(gen.log_uniform(-4, 4), gen.log_uniform(-4, 4),
                     st.sampled_from([1.0, 1 + 1e-9, 1 - 1e-9, 1 + 2e-7, 1 - 2e-7, 1 + 2e-6, 1 - 3e-6, 1 + 1e-5, 1 - 1e-5, 1.001, 0.999]))
st_near = st.one_of(
    st.fixed_dictionaries({"kind": st.just("genuine"), "d": st.just(0.0), "n": st.sampled_from([1, 2, 10, 100, 1000])}),
    st.fixed_dictionaries({"kind": st.just("reflection"), "d": st.just(2.0), "i": st.integers(0, 2)}),
    st.fixed_dictionaries({"kind": st.just("scaled"), "d": gen.log_uniform(-3, 1), "i": st.integers(0, 1)}),
    st.fixed_dictionaries({"kind": st.just("sheared"), "d": gen.log_uniform(-3, 0),
                           "sym": st.lists(gen.unit_f, min_size=6, max_size=6)}),
    st.fixed_dictionaries({"kind": st.just("bottom"), "d": gen.log_uniform(-6, 1), "i": st.integers(0, 3)}),
)

SUBS = [
    Sub("exp_log", sub_exp_log, st.fixed_dictionaries({"rot": gen.st_rotation}), 3000, 150000,
        nontrivial=nt_exp_log),
    Sub("log_exp", sub_log_exp, st.fixed_dictionaries({"axis": gen.st_axis, "theta": gen.st_theta}), 3000, 150000,
        nontrivial=lambda c: _near_end(float(c["theta"]))),
    Sub("hat_vee", sub_hat_vee, st.fixed_dictionaries({
        "v": st.lists(st.floats(allow_nan=False, allow_infinity=False, min_value=-1e12, max_value=1e12), min_size=3, max_size=3),
        "u": st.lists(gen.fl(-1e3, 1e3), min_size=3, max_size=3)}), 1000, 50000,
        nontrivial=lambda c: any(v != 0 for v in c["v"])),
    Sub("se3", sub_se3, st.fixed_dictionaries({"A": st_pose, "B": st_pose}), 3000, 150000,
        nontrivial=lambda c: max(c["A"]["mag"], c["B"]["mag"]) >= 1e6),
    Sub("sim3", sub_sim3, st.fixed_dictionaries({"P": st_pose, "s": st_scale}), 3000, 150000,
        nontrivial=lambda c: abs(math.log10(c["s"])) >= 2 or c["P"]["mag"] >= 1e6 or (c["s"] != 1.0 and abs(c["s"] - 1.0) <= 1e-4)),
    Sub("int_matrices", sub_int_matrices, st.fixed_dictionaries({
        "qk": st.integers(0, 63), "t": st.lists(st.integers(-9, 9).map(float), min_size=3, max_size=3), "s": st.sampled_from([1, 2, 3, 4, 5, 8])}),
        400, 5000, nontrivial=lambda c: c["s"] != 1),
    Sub("metric", sub_metric, st.fixed_dictionaries({"A": gen.st_rotation, "B": gen.st_rotation, "C": gen.st_rotation}), 3000, 150000,
        nontrivial=lambda c: _near_end(rm.rot_angle_between(gen.rot_matrix(c["A"]), gen.rot_matrix(c["B"])))),
    Sub("member", sub_member, st.fixed_dictionaries({"P": st_pose, "s": st_scale, "near": st_near, "history": st.booleans()}), 4000, 200000,
        nontrivial=lambda c: c["near"]["kind"] != "genuine" or c["near"]["n"] >= 100),
]
