"""C08 — Trajectory operations have their documented effect and keep all views consistent (histories)."""
import copy
import itertools
import math

import numpy as np
from hypothesis import strategies as st
from hypothesis.stateful import RuleBasedStateMachine, rule, initialize, precondition, invariant

from vf import gen, refmodel as rm, trajgen, pairsel, findings
from vf.core import Mismatch, Sub, Report, HarnessError, Skip
from vf.pairsel import Bad

from evo.core import geometry, filters, lie_algebra as lie
from evo.core.trajectory import PosePath3D, PoseTrajectory3D, Plane, TrajectoryException

PROPERTY = "C08"
RULE = ("rule-based state machine (Hypothesis): histories of up to 15 operations from {transform left/right/right+propagate "
        "(SE3), transform left (Sim3), scale, reduce_to_ids, downsample, motion_filter, reduce_to_time_range, align (rigid/"
        "similarity/scale-only, n), align_origin, project (and refused second projection), deepcopy-and-continue} interleaved "
        "with reads of exactly one view (positions, quaternions, matrices, distances, path_length, speeds, get_infos, check) on "
        "trajectories built from matrices or positions+quaternions, 1-12 poses (bulk 200), with/without timestamps; a reference "
        "pose model is compared after every step against the caches that exist (without materialising others) and all views at "
        "the end; plus exhaustive enumeration of all operation sequences to depth 3 (thorough: 4) over fixed representative "
        "arguments. Non-trivial = >= 2 mutating operations with >= 1 read between them; distinct by operation-name sequence + "
        "storage mode"
        ' Round-3 additions: similarities with scale 1 +- {3e-5..2e-4}, left Sim(3) with the propagate flag, CLI-style scale-only align, time axes with a stamp exactly 0.0 and negative stamps.'
        ' Round-8 addition (reduce_any_ids): reduce_to_ids with arbitrary index lists - reversal, rotation, permutations, repeats, full length - after reading any subset of the views.')
ASSUMPTIONS = ["positions compared with relative tolerance 1e-9 of the largest coordinate seen, orientations 1e-9",
               "after projection the model adopts evo's heading (the statement only fixes 'rotation about the normal'); kept ids of "
               "filters are identified by matching poses and judged with the C11 checkers"]
PLANE = {"xy": Plane.XY, "xz": Plane.XZ, "yz": Plane.YZ}
NULL = {"xy": 2, "xz": 1, "yz": 0}
MUTATORS = {"tl", "tr", "trp", "sim3", "sim3r", "scale", "ids", "down", "mf", "crop", "align", "origin", "project"}
READS = {"r_pos", "r_quat", "r_se3", "r_dist", "r_len", "r_speed", "r_info", "r_check"}


def _se3_from(d):
    return rm.se3(gen.rot_matrix(d["rot"]), np.asarray(d["t"], dtype=float) * float(d["mag"]))


class History(object):
    """the object under test plus the reference model; apply(op) executes one operation on both"""

    def __init__(self, init):
        real = trajgen.realise(init["traj"]) if "traj" in init else trajgen.bulk_real(init["bulk"]["n"], init["bulk"]["seed"], init["bulk"]["mode"])
        if init.get("qscale") and real.mode == "pq":
            # quaternions that are unit only within evo's own check() tolerance (e.g. rounded to 5 decimals in a file)
            f = np.asarray((list(init["qscale"]) * real.n)[: real.n], dtype=float)
            real = trajgen.Real(real.P, real.Rs(), "pq", real.T, Q=real.Q * (1.0 + f)[:, None])
        if init.get("smooth") and "traj" in init:
            # a smoothly turning platform: consecutive orientations differ by a small step about one axis (random
            # orientations are almost always far apart, which makes angle thresholds trivial)
            ax = gen.unit_axis(real.P[0] + np.array([0.3, -0.2, 0.9]))
            step = float(init["smooth"])
            R0 = real.Rs()[0]
            real = trajgen.Real(real.P, [R0 @ rm.rodrigues(ax * step * k) for k in range(real.n)], real.mode, real.T)
        if init.get("qflip") and real.mode == "pq":
            # q and -q are the same rotation: recorded data flips the sign freely between consecutive poses
            sg = np.where(np.arange(real.n) % 2 == 1, -1.0, 1.0)
            real = trajgen.Real(real.P, real.Rs(), "pq", real.T, Q=real.Q * sg[:, None])
        self.timed = bool(init["timed"])
        if self.timed and real.T is None:
            real.T = np.arange(real.n, dtype=float) * 0.5 + 100.0
        if self.timed and init.get("epoch"):
            real.T = real.T + 1.5e9   # UNIX-epoch sized stamps (spacing unchanged up to rounding)
            if not np.all(np.diff(real.T) > 0):
                real.T = 1.5e9 + np.arange(real.n, dtype=float) * 0.5
        if self.timed and init.get("tzero") is not None and not init.get("epoch"):
            # time axis relative to one of the poses: that pose has the stamp 0.0 exactly, earlier ones are negative
            Tz = real.T - real.T[int(init["tzero"]) % real.n]
            if np.all(np.diff(Tz) > 0):
                real.T = Tz
        if init.get("share") and real.mode == "se3" and real.n >= 2:
            # a stationary stretch given as the SAME matrix object twice (as in evo's own [pose] * n test data)
            j = real.n // 2
            P = real.P.copy()
            P[j] = P[j - 1]
            Rs = real.Rs()
            Rs[j] = Rs[j - 1]
            real = trajgen.Real(P, Rs, "se3", real.T)
            mats = [T.copy() for T in real.poses]
            mats[j] = mats[j - 1]
            self.obj = (PoseTrajectory3D(poses_se3=mats, timestamps=real.T.copy()) if self.timed else PosePath3D(poses_se3=mats))
            for v in init.get("pre", ()):
                getattr(self.obj, v)
        else:
            self.obj = real.build(init.get("pre", ()), timed=self.timed)
        self.poses = [np.array(p) for p in real.poses]
        self.T = None if not self.timed else np.array(real.T, dtype=float)
        self.projected = False
        self.mag = 1.0 + float(np.abs(real.P).max())
        self.ops_done = []
        self.qloose = bool(init.get("qscale"))
        self.rtol = 1e-9     # orientation tolerance; grows with repeated drift propagation (see _op_trp)
        self.trp_count = 0
        self.invariant("init")

    # ---- comparisons ---------------------------------------------------------------------
    def _ptol(self):
        cur = max([float(np.abs(p[:3, 3]).max()) for p in self.poses] + [0.0])
        self.mag = max(self.mag, 1.0 + cur)
        return self.rtol * self.mag

    def _refresh_rtol(self):
        """the model's own rotation blocks drift away from SO(3) under chained products (transpose inverses): the reference and
        evo are then both only defect-accurate; histories whose model defect exceeds 1e-8 are numerically meaningless"""
        defect = max([rm.orthonormality_defect(p[:3, :3]) for p in self.poses] + [0.0])
        if defect > 1e-8:
            raise Skip("accumulated numerical drift of the reference model beyond 1e-8")
        self.rtol = max(self.rtol, 1e-9 + 50 * defect)

    def invariant(self, after, full=False):
        o = self.obj
        d = o.__dict__
        n = len(self.poses)
        if o.num_poses != n:
            raise Mismatch("after %s: num_poses is %d, model has %d" % (after, o.num_poses, n), observed="count", after=after)
        self._refresh_rtol()
        ptol = self._ptol()
        P = np.array([p[:3, 3] for p in self.poses]).reshape(n, 3)
        if full:
            views = {"_positions_xyz": np.asarray(o.positions_xyz), "_orientations_quat_wxyz": np.asarray(o.orientations_quat_wxyz),
                     "_poses_se3": o.poses_se3}
        else:
            views = {k: d[k] for k in ("_positions_xyz", "_orientations_quat_wxyz", "_poses_se3") if k in d}
        if "_positions_xyz" in views:
            V = np.asarray(views["_positions_xyz"])
            if V.shape != (n, 3):
                raise Mismatch("after %s: positions view has shape %s for %d poses" % (after, V.shape, n), observed="count_positions", after=after)
            if n and float(np.abs(V - P).max()) > ptol:
                k = int(np.argmax(np.abs(V - P).max(axis=1)))
                raise Mismatch("after %s: position %d is %s, documented effect gives %s" % (after, k, V[k].tolist(), P[k].tolist()),
                               observed="positions", after=after)
        if "_orientations_quat_wxyz" in views:
            Q = np.asarray(views["_orientations_quat_wxyz"])
            if Q.shape != (n, 4):
                raise Mismatch("after %s: quaternion view has shape %s for %d poses" % (after, Q.shape, n), observed="count_quat", after=after)
            for k in range(n):
                if abs(float(np.linalg.norm(Q[k])) - 1.0) > (1.2e-5 if self.qloose else 1e-9):
                    raise Mismatch("after %s: quaternion %d is not a unit quaternion (norm %r)" % (after, k, float(np.linalg.norm(Q[k]))),
                                   observed="quat_norm", after=after)
                if float(np.abs(rm.quat_to_R(Q[k]) - self.poses[k][:3, :3]).max()) > self.rtol:
                    raise Mismatch("after %s: quaternion %d does not describe the documented orientation" % (after, k), observed="quaternions", after=after)
        if "_poses_se3" in views:
            M = views["_poses_se3"]
            if len(M) != n:
                raise Mismatch("after %s: matrix view has %d poses for %d" % (after, len(M), n), observed="count_se3", after=after)
            for k in range(n):
                Mk = np.asarray(M[k])
                if float(np.abs(Mk[:3, 3] - P[k]).max()) > ptol:
                    raise Mismatch("after %s: matrix %d translation %s, documented effect gives %s" % (after, k, Mk[:3, 3].tolist(), P[k].tolist()),
                                   observed="positions_se3", after=after)
                if float(np.abs(Mk[:3, :3] - self.poses[k][:3, :3]).max()) > self.rtol:
                    scaled = abs(abs(float(np.linalg.det(Mk[:3, :3]))) ** (1 / 3) - 1.0) > 1e-6
                    raise Mismatch("after %s: rotation block %d of the matrix view is\n%s\ndocumented effect gives\n%s" % (
                        after, k, Mk[:3, :3].tolist(), self.poses[k][:3, :3].tolist()),
                        observed="rotation_block_scaled" if scaled else "orientation_se3", after=after)
                if not np.array_equal(Mk[3], [0.0, 0.0, 0.0, 1.0]):
                    raise Mismatch("after %s: bottom row of matrix %d" % (after, k), observed="bottom_row", after=after)
        if self.timed:
            ts = np.asarray(o.timestamps)
            if ts.shape != (n,) or not np.array_equal(ts, self.T):
                raise Mismatch("after %s: timestamps %s, expected %s" % (after, ts.tolist()[:8], self.T.tolist()[:8]), observed="timestamps", after=after)
        if full and n:
            ok, details = o.check()
            if not ok:
                raise Mismatch("after %s: evo's own check() reports an invalid trajectory: %s" % (after, details), observed="check_invalid", after=after)

    # ---- operations ----------------------------------------------------------------------
    def apply(self, op):
        k = op["op"]
        o = self.obj
        n = len(self.poses)
        getattr(self, "_op_" + k)(op, o, n)
        self.ops_done.append(k)
        self.invariant(k, full=k in ("r_check",))

    def _op_tl(self, op, o, n):
        T = _se3_from(op["T"])
        o.transform(T.copy())
        self.poses = [T @ p for p in self.poses]

    def _op_tr(self, op, o, n):
        T = _se3_from(op["T"])
        o.transform(T.copy(), right_mul=True)
        self.poses = [p @ T for p in self.poses]

    def _trp_bound(self, n, k):
        # chained products of transpose-inverses let the orthonormality defect grow like eps (2n)^k / k!
        return 1e-9 + 4 * rm.EPS * (2.0 * n) ** k / math.factorial(k)

    def _op_trp(self, op, o, n):
        if self._trp_bound(n, self.trp_count + 1) > 1e-7:
            return  # numerically meaningless history (drift beyond evo's own validity tolerance): not explored
        self.trp_count += 1
        self.rtol = max(self.rtol, self._trp_bound(n, self.trp_count))
        T = _se3_from(op["T"])
        o.transform(T.copy(), right_mul=True, propagate=True)
        rel = [rm.rel(self.poses[i], self.poses[i + 1]) @ T for i in range(n - 1)]
        new = [self.poses[0]]
        for r in rel:
            new.append(new[-1] @ r)
        self.poses = new

    def _op_sim3(self, op, o, n):
        R = gen.rot_matrix(op["T"]["rot"])
        t = np.asarray(op["T"]["t"], dtype=float) * float(op["T"]["mag"])
        s = float(op["s"])
        # the propagate flag is documented for right-multiplication only: a left transformation stays T*P
        o.transform(rm.sim3(R, t, s), propagate=True) if op.get("prop") else o.transform(rm.sim3(R, t, s))
        self.poses = [rm.se3(R @ p[:3, :3], s * (R @ p[:3, 3]) + t) for p in self.poses]

    def _op_sim3r(self, op, o, n):
        """right-multiplication P*T with a Sim(3) T: position p + R_p t (the scale of T acts on nothing), orientation R_p R"""
        R = gen.rot_matrix(op["T"]["rot"])
        t = np.asarray(op["T"]["t"], dtype=float) * float(op["T"]["mag"])
        s = float(op["s"])
        o.transform(rm.sim3(R, t, s), right_mul=True)
        self.poses = [rm.se3(p[:3, :3] @ R, p[:3, 3] + p[:3, :3] @ t) for p in self.poses]

    def _op_scale(self, op, o, n):
        s = float(op["s"])
        o.scale(s)
        self.poses = [rm.se3(p[:3, :3], s * p[:3, 3]) for p in self.poses]

    def _select(self, ids):
        self.poses = [self.poses[i] for i in ids]
        if self.timed:
            self.T = self.T[ids]

    def _op_ids(self, op, o, n):
        ids = sorted(set(int(v) % n for v in op["ids"]))
        o.reduce_to_ids(np.asarray(ids, dtype=int) if op.get("as_array") else ids)
        self._select(ids)

    def _match_ids(self, what):
        """which model poses survive in the object (greedy subsequence match on stamps or poses)"""
        o = self.obj
        m = o.num_poses
        if self.timed:
            lut = {float(t): i for i, t in enumerate(self.T.tolist())}
            try:
                return [lut[float(t)] for t in np.asarray(o.timestamps).tolist()]
            except KeyError:
                raise Mismatch("%s: a timestamp of the result is not one of the trajectory's" % what, observed="timestamps", after=what)
        P = np.asarray(o.positions_xyz)
        ptol = self._ptol()
        ids = []
        j = 0
        for k in range(m):
            while j < len(self.poses) and float(np.abs(self.poses[j][:3, 3] - P[k]).max()) > ptol:
                j += 1
            if j >= len(self.poses):
                raise Mismatch("%s: result pose %d is not a pose of the trajectory (in order)" % (what, k), observed="positions", after=what)
            ids.append(j)
            j += 1
        return ids

    def _ambiguous_identity(self):
        """without stamps, equal poses cannot be told apart in a selection result"""
        if self.timed:
            return False
        P = np.array([p[:3, 3] for p in self.poses])
        tol = self._ptol()
        order = np.lexsort(P.T)
        Ps = P[order]
        return bool(np.any(np.all(np.abs(np.diff(Ps, axis=0)) <= tol, axis=1))) if len(Ps) > 1 else False

    def _op_down(self, op, o, n):
        N = int(op["n"])
        if N < 1 and n > N:
            try:
                o.downsample(N)
            except TrajectoryException:
                return
            raise Mismatch("downsample(%d) not refused" % N, observed="not_refused", after="down")
        o.downsample(N)
        ids = None
        if not self.timed and o.num_poses == min(n, N) and N < n:
            # without stamps equal poses make the identification ambiguous: try the evenly spaced candidates first
            Pout = np.asarray(o.positions_xyz)
            ptol = self._ptol()
            lin = np.linspace(0, n - 1, N)
            for cand in (np.floor(lin).astype(int), np.round(lin).astype(int), np.ceil(lin).astype(int)):
                cand = [int(v) for v in cand]
                if len(set(cand)) == len(cand) and all(float(np.abs(self.poses[j][:3, 3] - Pout[k]).max()) <= ptol for k, j in enumerate(cand)):
                    ids = cand
                    break
        if ids is None:
            if self._ambiguous_identity():
                raise Skip("untimed selection with equal poses: kept ids not identifiable")
            ids = self._match_ids("downsample")
        from vf.checks.c11 import check_downsample_ids
        try:
            check_downsample_ids(ids, n, N)
        except Mismatch:
            if self._ambiguous_identity():
                raise Skip("untimed selection with equal poses: kept ids not identifiable")
            raise
        self._select(ids)

    def _op_mf(self, op, o, n):
        d, a = float(op["d"]), float(op["a"])
        if n < 2:
            try:
                o.motion_filter(d, math.degrees(a) if op["deg"] else a, op["deg"])
            except filters.FilterException:
                return
            raise Mismatch("motion_filter on one pose not refused", observed="not_refused", after="mf")
        o.motion_filter(d, math.degrees(a) if op["deg"] else a, op["deg"])
        P = np.array([p[:3, 3] for p in self.poses])
        steps = rm.step_lengths(P)
        # a step length is a difference of coordinates: its rounding error scales with the coordinate magnitude times eps
        margin_d = 1e-9 * max(math.fsum(steps), d) + 4096 * rm.EPS * self.mag
        ids = None
        if not self.timed:
            # without stamps equal poses make the identification ambiguous: try the ids the definition gives first
            ref_ids, amb = pairsel.motion_filter_reference(P, [p[:3, :3] for p in self.poses], d, a, margin_d, 1e-7)
            Pout = np.asarray(o.positions_xyz)
            if not amb and len(ref_ids) == o.num_poses and all(float(np.abs(P[j] - Pout[k]).max()) <= self._ptol() for k, j in enumerate(ref_ids)):
                ids = ref_ids
            elif not amb:
                # no decision of the definition is near a threshold: the kept poses are determined, evo kept others
                raise Mismatch("motion_filter in a history kept %d poses %s, the definition keeps %d poses (ids %s)" % (
                    o.num_poses, "at other positions" if len(ref_ids) == o.num_poses else "", len(ref_ids), ref_ids[:12]),
                    observed="mf_selection", after="mf")
            elif self._ambiguous_identity():
                raise Skip("untimed selection with equal poses: kept ids not identifiable")
        if ids is None:
            ids = self._match_ids("motion_filter")
        try:
            pairsel.check_motion_filter(ids, P, [p[:3, :3] for p in self.poses], d, a, margin_d, 1e-7)
        except Bad as b:
            if self._ambiguous_identity():
                raise Skip("untimed selection with equal poses: kept ids not identifiable")
            raise Mismatch("motion_filter in a history: %s" % b.msg, observed=b.clause, after="mf")
        self._select(ids)

    def _op_crop(self, op, o, n):
        if not self.timed:
            return
        i, j = sorted((int(op["i"]) % n, int(op["j"]) % n))
        lo = float(self.T[i]) - (0.25 if op["lo_out"] else 0.0)
        hi = float(self.T[j]) + (0.25 if op["hi_out"] else 0.0)
        o.reduce_to_time_range(None if op["lo_none"] else lo, None if op["hi_none"] else hi)
        lo_eff = self.T[0] if op["lo_none"] else lo
        hi_eff = self.T[-1] if op["hi_none"] else hi
        ids = [k for k in range(n) if lo_eff <= self.T[k] <= hi_eff]
        self._select(ids)

    def _ref_for(self, op, n):
        rng = gen.bulk_rng(op["seed"])
        P = rng.standard_normal((n, 3)) * 10.0
        Q = rng.standard_normal((n, 4))
        Q /= np.linalg.norm(Q, axis=1)[:, None]
        if self.timed:
            return PoseTrajectory3D(positions_xyz=P, orientations_quat_wxyz=Q, timestamps=self.T.copy()), P, Q
        return PosePath3D(positions_xyz=P, orientations_quat_wxyz=Q), P, Q

    def _op_align(self, op, o, n):
        ref, P, Q = self._ref_for(op, n)
        mode = op["mode"]
        # "scale_both" is how the command line tools request scale-only correction (correct_scale and correct_only_scale)
        cs, cos = {"rigid": (False, False), "similarity": (True, False), "scale": (False, True), "scale_both": (True, True)}[mode]
        nn = -1 if op["n"] == -1 else 3 + int(op["n"]) % max(1, n - 2)
        try:
            r, t, s = o.align(ref, correct_scale=cs, correct_only_scale=cos, n=nn)
        except geometry.GeometryException:
            return
        r, t, s = np.asarray(r, dtype=float), np.asarray(t, dtype=float), float(s)
        if rm.orthonormality_defect(r) > 1e-9 or np.linalg.det(r) < 0:
            raise Mismatch("align returned an improper rotation", observed="improper", after="align")
        if mode in ("scale", "scale_both"):
            self.poses = [rm.se3(p[:3, :3], s * p[:3, 3]) for p in self.poses]
        else:
            self.poses = [rm.se3(r @ p[:3, :3], s * (r @ p[:3, 3]) + t) for p in self.poses]

    def _op_origin(self, op, o, n):
        ref, P, Q = self._ref_for(op, n)
        o.align_origin(ref)
        T = rm.pose_from(P[0], Q[0]) @ rm.se3_inv(self.poses[0])
        self.poses = [T @ p for p in self.poses]

    def _op_project(self, op, o, n):
        plane = op["plane"]
        if self.projected:
            try:
                o.project(PLANE[plane])
            except TrajectoryException:
                return
            raise Mismatch("second projection not refused", observed="not_refused", after="project")
        o.project(PLANE[plane])
        self.projected = True
        nd = NULL[plane]
        ax = np.zeros(3)
        ax[nd] = 1.0
        M = o.__dict__["_poses_se3"] if "_poses_se3" in o.__dict__ else o.poses_se3
        new = []
        for k, p in enumerate(self.poses):
            q = p.copy()
            q[nd, 3] = 0.0
            R = np.asarray(M[k])[:3, :3]
            if float(np.abs(R @ ax - ax).max()) > 1e-9 or rm.orthonormality_defect(R) > 1e-9:
                raise Mismatch("projection in a history: orientation %d is not a rotation about the normal" % k, observed="not_about_normal", after="project")
            q[:3, :3] = R
            new.append(q)
        self.poses = new

    def _op_copy(self, op, o, n):
        self.obj = copy.deepcopy(o)

    # reads: touch exactly one view / derived quantity and compare it with the model
    def _op_r_pos(self, op, o, n):
        o.positions_xyz

    def _op_r_quat(self, op, o, n):
        o.orientations_quat_wxyz

    def _op_r_se3(self, op, o, n):
        o.poses_se3

    def _P(self):
        return np.array([p[:3, 3] for p in self.poses]).reshape(len(self.poses), 3)

    def _op_r_dist(self, op, o, n):
        got = np.asarray(o.distances, dtype=float)
        exp = np.asarray(rm.accumulated(self._P()))
        if got.shape != exp.shape or float(np.abs(got - exp).max(initial=0.0)) > 1e-9 * (exp[-1] + self.mag):
            raise Mismatch("accumulated distances %s do not follow from the poses (%s)" % (got.tolist()[:6], exp.tolist()[:6]), observed="distances", after="r_dist")

    def _op_r_len(self, op, o, n):
        got = float(o.path_length)
        exp = math.fsum(rm.step_lengths(self._P()))
        if abs(got - exp) > 1e-9 * (exp + self.mag):
            raise Mismatch("path_length %r does not follow from the poses (%r)" % (got, exp), observed="path_length", after="r_len")

    def _op_r_speed(self, op, o, n):
        if not self.timed:
            return
        got = np.asarray(o.speeds, dtype=float)
        st_ = rm.step_lengths(self._P())
        exp = np.array([st_[i] / float(self.T[i + 1] - self.T[i]) for i in range(n - 1)])
        if got.shape != exp.shape or (n > 1 and float(np.abs(got - exp).max()) > 1e-9 * (float(np.abs(exp).max()) + self.mag)):
            raise Mismatch("speeds %s do not follow from poses and stamps (%s)" % (got.tolist()[:6], exp.tolist()[:6]), observed="speeds", after="r_speed")

    def _op_r_info(self, op, o, n):
        info = o.get_infos()
        if info["nr. of poses"] != n:
            raise Mismatch("get_infos: nr. of poses %r" % info["nr. of poses"], observed="infos", after="r_info")
        P = self._P()
        tol = self._ptol()
        if float(np.abs(np.asarray(info["pos_start (m)"]) - P[0]).max()) > tol or float(np.abs(np.asarray(info["pos_end (m)"]) - P[-1]).max()) > tol:
            raise Mismatch("get_infos: start/end positions", observed="infos", after="r_info")
        if self.timed and abs(float(info["duration (s)"]) - float(self.T[-1] - self.T[0])) > 1e-9 * (1 + abs(float(self.T[-1]))):
            raise Mismatch("get_infos: duration %r" % info["duration (s)"], observed="infos", after="r_info")

    def _op_r_check(self, op, o, n):
        pass  # invariant(full=True) follows

    def finish(self):
        self.invariant("end", full=True)


def replay(case):
    h = History(case["init"])
    for op in case["ops"]:
        h.apply(op)
    h.finish()
    muts = [k for k in h.ops_done if k in MUTATORS]
    return "m%d" % min(len(muts), 4)


def _nontrivial(case):
    names = [op["op"] for op in case["ops"]]
    muts = [i for i, k in enumerate(names) if k in MUTATORS]
    if len(muts) < 2:
        return False
    return any(k in READS for k in names[muts[0]:muts[-1]])


# ---- strategies for op arguments -----------------------------------------------------------------

st_T = st.fixed_dictionaries({"rot": gen.st_rotation, "t": st.lists(gen.unit_f, min_size=3, max_size=3),
                              "mag": st.one_of(gen.log_uniform(-2, 3), st.just(0.0))})
# incl. similarities that are only just not rigid (scale a few 1e-5..1e-4 beside 1: clearly outside evo's 1e-6 SE(3) tolerance)
st_s = st.one_of(gen.log_uniform(-2, 2), st.sampled_from([1.0, 2.0, 0.5]), st.sampled_from([1.0002, 0.9998, 1.00003, 0.99995]))
OPS = {
    "tl": st.fixed_dictionaries({"op": st.just("tl"), "T": st_T}),
    "tr": st.fixed_dictionaries({"op": st.just("tr"), "T": st_T}),
    "trp": st.fixed_dictionaries({"op": st.just("trp"), "T": st_T}),
    "sim3": st.fixed_dictionaries({"op": st.just("sim3"), "T": st_T, "s": st_s, "prop": st.sampled_from([False, False, True])}),
    "sim3r": st.fixed_dictionaries({"op": st.just("sim3r"), "T": st_T, "s": st_s}),
    "scale": st.fixed_dictionaries({"op": st.just("scale"), "s": st_s}),
    "ids": st.fixed_dictionaries({"op": st.just("ids"), "ids": st.lists(st.integers(0, 30), min_size=1, max_size=12), "as_array": st.booleans()}),
    "down": st.fixed_dictionaries({"op": st.just("down"), "n": st.integers(0, 14)}),
    "mf": st.fixed_dictionaries({"op": st.just("mf"), "d": st.one_of(st.just(0.0), gen.log_uniform(-2, 3)), "a": gen.fl(0.0, 3.2), "deg": st.booleans()}),
    "crop": st.fixed_dictionaries({"op": st.just("crop"), "i": st.integers(0, 30), "j": st.integers(0, 30), "lo_out": st.booleans(),
                                   "hi_out": st.booleans(), "lo_none": st.booleans(), "hi_none": st.booleans()}),
    "align": st.fixed_dictionaries({"op": st.just("align"), "seed": st.integers(0, 2 ** 32), "mode": st.sampled_from(["rigid", "similarity", "scale", "scale_both"]),
                                    "n": st.one_of(st.just(-1), st.integers(0, 10))}),
    "origin": st.fixed_dictionaries({"op": st.just("origin"), "seed": st.integers(0, 2 ** 32)}),
    "project": st.fixed_dictionaries({"op": st.just("project"), "plane": st.sampled_from(["xy", "xz", "yz"])}),
    "copy": st.fixed_dictionaries({"op": st.just("copy")}),
}
for _r in READS:
    OPS[_r] = st.just({"op": _r})

st_init = st.integers(1, 12).flatmap(lambda n: st.fixed_dictionaries({
    "traj": trajgen.st_traj(n, stamps=True, exp_lo=-2, exp_hi=4), "timed": st.booleans(), "share": st.sampled_from([False, False, True]),
    "qscale": st.one_of(st.none(), st.none(), st.lists(st.sampled_from([0.0, 4e-6, -4e-6, 9e-6, 2e-7]), min_size=1, max_size=4)),
    "pre": st.lists(st.sampled_from(trajgen.VIEWS), max_size=2, unique=True),
    "tzero": st.one_of(st.none(), st.none(), st.integers(0, 11)), "epoch": st.sampled_from([False, False, True]), "qflip": st.booleans(), "smooth": st.sampled_from([None, None, 0.05, 0.3])}))
st_init_bulk = st.fixed_dictionaries({"bulk": st.fixed_dictionaries({"n": st.just(200), "seed": st.integers(0, 2 ** 32), "mode": st.sampled_from(["pq", "se3"])}),
                                      "timed": st.booleans(), "pre": st.lists(st.sampled_from(trajgen.VIEWS), max_size=1)})


class TrajectoryMachine(RuleBasedStateMachine):
    vf_violation = None
    vf_prop = PROPERTY
    vf_sub = None
    vf_rep = None

    @classmethod
    def vf_reset(cls, prop, sub, rep):
        cls.vf_violation = None
        cls.vf_prop, cls.vf_sub, cls.vf_rep = prop, sub, rep

    def __init__(self):
        super().__init__()
        self.h = None
        self.case = None
        self.dead = False

    def _guard(self, fn):
        """run fn; Mismatch / evo exceptions become the violation of this history (or a known finding)"""
        from vf.runner import _is_from_repo
        cls = type(self)
        try:
            fn()
            return
        except Skip as sk:
            cls.vf_rep.skip("%s:%s" % (cls.vf_sub.name, sk.reason))
            self.dead = True
            return
        except Mismatch as m:
            msg, tags = m.msg, m.tags
        except (HarnessError, AssertionError):
            raise
        except Exception as e:  # noqa
            inner = _is_from_repo(e)
            if inner is None:
                if not isinstance(e, (KeyError, IndexError, ValueError, TypeError, AttributeError, ZeroDivisionError)):
                    raise
                # the model could not interpret what evo handed back (see runner.execute_case)
                msg = "evo's output could not be interpreted by the check (%s: %s) - missing/malformed key, array or value" % (type(e).__name__, str(e)[:200])
                tags = {"observed": "malformed_output", "exc_type": type(e).__name__}
            else:
                msg = "unexpected %s escaped evo (%s:%s): %s" % (type(e).__name__, inner[0], inner[1], str(e)[:300])
                tags = {"observed": "unexpected_exception", "exc_type": type(e).__name__, "evo_func": inner[1]}
        kf = findings.match(cls.vf_prop, cls.vf_sub.name, tags)
        if kf:
            cls.vf_rep.known[kf] = cls.vf_rep.known.get(kf, 0) + 1
            self.dead = True
            return
        cls.vf_violation = {"sub": cls.vf_sub.name, "case": copy.deepcopy(self.case), "message": msg, "tags": tags}
        raise Mismatch(msg, **tags)

    @initialize(init=st.one_of(st_init, st_init, st_init, st_init_bulk))
    def start(self, init):
        self.case = {"init": init, "ops": []}
        self._guard(lambda: setattr(self, "h", History(init)))

    def _do(self, op):
        if self.dead or self.h is None:
            return
        self.case["ops"].append(op)
        self._guard(lambda: self.h.apply(op))

    def teardown(self):
        if self.h is not None and not self.dead and type(self).vf_violation is None:
            try:
                self._guard(self.h.finish)
            except Mismatch:
                pass
            cls = type(self)
            if cls.vf_rep is not None and self.case is not None and cls.vf_violation is None:
                names = [o["op"] for o in self.case["ops"]]
                key = {"names": names, "mode": self.case["init"].get("traj", self.case["init"].get("bulk"))["mode"], "timed": self.case["init"]["timed"]}
                cls.vf_rep.count(cls.vf_sub.name, self.case, "len%d" % min(15, 5 * (len(names) // 5)), _nontrivial(self.case),
                                 h=__import__("vf.core", fromlist=["case_hash"]).case_hash(key))


def _mk_rule(name, strat):
    def r(self, op):
        self._do(op)
    r.__name__ = "op_" + name
    return rule(op=strat)(r)


for _name, _strat in OPS.items():
    setattr(TrajectoryMachine, "op_" + _name, _mk_rule(_name, _strat))


# ---- bounded exhaustive enumeration ----------------------------------------------------------------

_T1 = {"rot": {"axis": [0.0, 0.0, 1.0], "theta": 0.7}, "t": [1.0, -0.5, 0.25], "mag": 2.0}
_T2 = {"rot": {"q": [0.5, -0.5, 0.5, 0.5]}, "t": [0.0, 1.0, 0.0], "mag": 10.0}
ALPHABET = [
    {"op": "tl", "T": _T1}, {"op": "tr", "T": _T2}, {"op": "trp", "T": _T1}, {"op": "trp", "T": dict(_T1, mag=0.0)}, {"op": "sim3r", "T": _T2, "s": 2.5}, {"op": "sim3", "T": _T2, "s": 2.5}, {"op": "sim3", "T": _T1, "s": 1.0002}, {"op": "scale", "s": 0.5},
    {"op": "ids", "ids": [0, 2], "as_array": False}, {"op": "down", "n": 2}, {"op": "mf", "d": 1.0, "a": 0.5, "deg": False}, {"op": "mf", "d": 1000.0, "a": 0.15, "deg": False},
    {"op": "crop", "i": 1, "j": 2, "lo_out": False, "hi_out": True, "lo_none": False, "hi_none": False},
    {"op": "align", "seed": 7, "mode": "similarity", "n": -1}, {"op": "align", "seed": 8, "mode": "scale_both", "n": -1}, {"op": "origin", "seed": 9}, {"op": "project", "plane": "xy"},
    {"op": "copy"}, {"op": "r_pos"}, {"op": "r_quat"}, {"op": "r_se3"}, {"op": "r_check"}, {"op": "r_len"}, {"op": "r_dist"}, {"op": "r_speed"},
    {"op": "r_info"},
]
_ENUM_TRAJ = {"n": 3, "pos": {"pts": [[0.1, 0.2, 0.3], [0.9, -0.4, 0.5], [-0.7, 0.8, -0.2]], "mag": 10.0, "off": 0},
              "rots": [{"q": [0.9, 0.1, -0.3, 0.2]}, {"axis": [0.0, 1.0, 0.0], "theta": 2.0}, {"quarter": [1, 0, 2]}],
              "stamps": {"t0": -0.5, "dts": [0.5, 1.5]}}


def enum_cases(tier):
    depth = 3 if tier == "quick" else 4
    for mode in ("pq", "se3"):
        for timed in (True, False):
            for pre in ([], ["poses_se3"] if mode == "pq" else ["positions_xyz"], ["share"], ["smooth_flip"]):
                if pre == ["share"] and mode != "se3":
                    continue
                if pre == ["smooth_flip"] and mode != "pq":
                    continue
                init = {"traj": dict(_ENUM_TRAJ, mode=mode, pre=[]), "timed": timed, "pre": [] if pre in (["share"], ["smooth_flip"]) else pre,
                        "share": pre == ["share"]}
                if pre == ["smooth_flip"]:
                    # slowly turning platform whose stored quaternions alternate in sign
                    init.update(smooth=0.1, qflip=True)
                for L in range(1, depth + 1):
                    for seq in itertools.product(range(len(ALPHABET)), repeat=L):
                        if L == depth and tier != "quick" and ALPHABET[seq[-1]]["op"] in ("copy",):
                            continue
                        yield {"init": init, "ops": [ALPHABET[i] for i in seq]}


REPLAY = None


def custom_enum(ctx):
    from vf.runner import execute_case
    rep = Report()
    n_eval = n_nt = 0
    sample = None
    for idx, case in enumerate(enum_cases(ctx["tier"])):
        if idx % ctx["nshards"] != ctx["shard"]:
            continue
        inner = Report()
        v = execute_case(PROPERTY, REPLAY, case, inner, counting=False)
        for kf, c in inner.known.items():
            rep.known[kf] = rep.known.get(kf, 0) + c
        n_eval += 1
        n_nt += 1 if _nontrivial(case) else 0
        if sample is None and len(case["ops"]) == 3:
            sample = case
        if v is not None:
            rep.violations.append(v)
            break
    rep.count_many("enumerate", n_eval, n_nt, None, sample)
    rep.exhaustive["enumerate"] = not rep.violations
    return rep


REPLAY = Sub("history", replay, st.fixed_dictionaries({"init": st_init, "ops": st.lists(st.one_of(*OPS.values()), min_size=1, max_size=6)}),
             300, 10000, nontrivial=_nontrivial)
MACHINE = Sub("history", replay, kind="machine", state_machine=TrajectoryMachine, n_quick=400, n_thorough=20000, steps=15,
              nontrivial=_nontrivial, shards_quick=8)

def sub_reduce_any(case):
    """reduce_to_ids with ANY index list (numpy selection semantics: any order, repeats, full length): every view and the
    timestamps are the selection [old[i] for i in ids]"""
    h = History(case["init"])
    n = len(h.poses)
    for v in case["reads"]:
        getattr(h.obj, v)
    vals = [int(v) % n for v in case["vals"]] or [0]
    if case["kind"] == "reverse":
        ids = list(range(n))[::-1]
    elif case["kind"] == "perm":
        keys = (vals * n)[:n]
        ids = sorted(range(n), key=lambda i: (keys[i], -i))
    elif case["kind"] == "rotate":
        k = vals[0] % n
        ids = list(range(k, n)) + list(range(k))
    else:
        ids = vals
    h.obj.reduce_to_ids(np.asarray(ids, dtype=int) if case["as_array"] else ids)
    h._select(ids)
    what = "reduce_to_ids(%s) on %d poses" % (ids[:12], n)
    h.invariant(what)
    for v in trajgen.VIEWS:
        getattr(h.obj, v)
    h.invariant(what + " and reading all views")
    return "%s/%s" % (case["kind"], "full" if len(ids) == n else "other")


def _nt_reduce_any(c):
    return c["kind"] != "free" or len(c["vals"]) >= 2


st_reduce_any = st.fixed_dictionaries({
    "init": st_init, "reads": st.lists(st.sampled_from(trajgen.VIEWS), max_size=3, unique=True),
    "kind": st.sampled_from(["reverse", "perm", "rotate", "free"]), "vals": st.lists(st.integers(0, 40), min_size=1, max_size=16),
    "as_array": st.booleans()})

SUBS = [
    MACHINE,
    Sub("enumerate", kind="custom", custom=custom_enum, n_quick=1, n_thorough=1, shards_quick=8, shards_thorough=16,
        exhaustive_tiers=("quick", "thorough")),
    Sub("reduce_any_ids", sub_reduce_any, st_reduce_any, 1500, 60000, nontrivial=_nt_reduce_any),
]
