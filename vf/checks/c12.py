"""C12 — A metric result is self-consistent: statistics, companion arrays, unit."""
import itertools
import math
from fractions import Fraction

import numpy as np
from hypothesis import strategies as st

from vf import gen, refmodel as rm, trajgen
from vf.core import Mismatch, Sub
from vf.checks.c01 import REL

from evo.core import metrics, filters, geometry
from evo.core.metrics import Unit, PoseRelation
from evo.core.units import LENGTH_UNITS, ANGLE_UNITS
from evo import main_ape, main_rpe

PROPERTY = "C12"
RULE = ("error arrays (1-200 drawn values, bulk to 1e6 from a Philox key; magnitudes 1e-12..1e6, constant, single value) "
        "injected into APE/RPE objects: statistics vs math.fsum definitions, order relations, rmse^2 = mean^2 + std^2; every "
        "ordered pair of the 10 units; ape()/rpe() evaluations on generated timestamped trajectories (options align, "
        "correct_scale, change_unit, delta/unit/pairing): companion arrays, stored trajectories, title/label. Non-trivial = "
        ">= 2 distinct values (RPE: non-unit frame delta or filtered ratio); distinct by SHA-1"
        ' Round-3 additions: derived quantities read before ape()/rpe(); evo_ape result saved together with plots (cli_plot).')
ASSUMPTIONS = ["statistics compared with relative tolerance 1e-9 (order relations with the same slack: on constant arrays "
               "mean <= rmse <= max fails strictly by one ulp on correct code)",
               "'distances from start' are read as accumulated path length of the trajectories stored in the result"]
FACT = {Unit.millimeters: Fraction(1, 1000), Unit.centimeters: Fraction(1, 100), Unit.meters: Fraction(1), Unit.kilometers: Fraction(1000)}


def _values(case):
    if "bulk" in case:
        b = case["bulk"]
        rng = gen.bulk_rng(b["seed"])
        v = np.abs(rng.standard_normal(int(b["n"]))) * float(b["mag"])
        if b["const"]:
            v[:] = float(b["mag"])
        return v
    v = np.asarray(case["vals"], dtype=float) * float(case["mag"])
    if case.get("const"):
        v[:] = v[0]
    return np.abs(v)


def _rel_close(a, b, rel, what, abs_floor=0.0):
    if not (abs(a - b) <= rel * max(abs(a), abs(b)) + abs_floor):
        raise Mismatch("%s: %r vs definition %r" % (what, a, b), observed="stat_value", stat=what)


def sub_stats(case):
    v = _values(case)
    m = metrics.APE(PoseRelation.translation_part) if case["cls"] == "ape" else metrics.RPE(PoseRelation.translation_part)
    m.error = v.copy()
    ref = rm.statistics(v)
    got = m.get_all_statistics()
    if set(got.keys()) != set(ref.keys()):
        raise Mismatch("statistics keys %s" % sorted(got.keys()), observed="stat_keys")
    floor = 1e-300
    for k in ref:
        if isinstance(got[k], (np.ndarray, list)):
            raise Mismatch("statistic %s is not a scalar" % k, observed="stat_type")
        _rel_close(float(got[k]), ref[k], 1e-9, k, floor if k != "std" else 1e-9 * abs(ref["mean"]) + floor)
        single = float(m.get_statistic(metrics.StatisticsType(k)))
        if single != float(got[k]) and not (math.isnan(single) and math.isnan(float(got[k]))):
            raise Mismatch("get_statistic(%s) differs from get_all_statistics" % k, observed="stat_value", stat=k)
    g = {k: float(x) for k, x in got.items()}
    sl = 1e-9

    def le(a, b, what):
        if not (a <= b + sl * max(abs(a), abs(b)) + floor):
            raise Mismatch("order relation violated: %s (%r > %r)" % (what, a, b), observed="stat_order")
    le(g["min"], g["median"], "min <= median")
    le(g["median"], g["max"], "median <= max")
    le(g["min"], g["mean"], "min <= mean")
    le(g["mean"], g["rmse"], "mean <= rmse")
    le(g["rmse"], g["max"], "rmse <= max")
    lhs = g["rmse"] ** 2
    rhs = g["mean"] ** 2 + g["std"] ** 2
    if not abs(lhs - rhs) <= 1e-9 * max(lhs, rhs) + floor:
        raise Mismatch("rmse^2 = %r != mean^2 + std^2 = %r" % (lhs, rhs), observed="stat_identity")
    _rel_close(g["sse"], len(v) * g["rmse"] ** 2, 1e-9, "sse = n rmse^2", floor)
    # get_result carries the same numbers, the values and a label naming metric and unit
    res = m.get_result("r", "e")
    if not np.array_equal(res.np_arrays["error_array"], v):
        raise Mismatch("error_array of the result differs from the error values", observed="result_array")
    for k in ref:
        if float(res.stats[k]) != g[k]:
            raise Mismatch("result stats[%s] differs from the metric's statistic" % k, observed="result_stats")
    name = "APE" if case["cls"] == "ape" else "RPE"
    if res.info["label"] != "%s (%s)" % (name, m.unit.value):
        raise Mismatch("label %r" % res.info["label"], observed="label")
    if res.info["ref_name"] != "r" or res.info["est_name"] != "e":
        raise Mismatch("names in info", observed="label")
    if not np.array_equal(m.error, v):
        raise Mismatch("statistics modified the error values", observed="input_modified")
    return "const" if (case.get("const") or ("bulk" in case and case["bulk"]["const"])) else ("single" if len(v) == 1 else "generic")


def sub_stats_history(case):
    """statistics read, unit changed, statistics read again: they always follow from the current values"""
    v = _values(case)
    if len(v) == 0:
        return
    for u1, u2 in ((Unit.meters, Unit.centimeters), (Unit.meters, Unit.kilometers), (Unit.millimeters, Unit.meters), (Unit.radians, Unit.degrees),
                   (Unit.degrees, Unit.radians)):
        m = metrics.APE(PoseRelation.translation_part) if case["cls"] == "ape" else metrics.RPE(PoseRelation.translation_part)
        m.unit = u1
        m.error = v.copy()
        if case["read_first"]:
            m.get_statistic(metrics.StatisticsType.rmse)
            m.get_all_statistics()
            m.get_result()
        m.change_unit(u2)
        ref = rm.statistics(m.error)
        got = m.get_all_statistics()
        res = m.get_result()
        for k in ref:
            floor = 1e-300 + (1e-9 * abs(ref["mean"]) if k == "std" else 0.0)
            for src, val in (("get_all_statistics", got[k]), ("get_result", res.stats[k])):
                if not abs(float(val) - ref[k]) <= 1e-9 * max(abs(float(val)), abs(ref[k])) + floor:
                    raise Mismatch("after %s -> %s (statistics %sread before): %s of %s is %r, the current values give %r" % (
                        u1.value, u2.value, "" if case["read_first"] else "not ", k, src, float(val), ref[k]), observed="stat_stale", stat=k)
        if not np.array_equal(res.np_arrays["error_array"], m.error):
            raise Mismatch("result array is not the converted values", observed="result_array")
    return "stats_history"


def sub_units(case):
    v = _values(case)
    if len(v) == 0:
        return
    for u1, u2 in itertools.product(list(Unit), list(Unit)):
        m = metrics.APE(PoseRelation.translation_part)
        m.unit = u1
        m.error = v.copy()
        before = v.copy()
        ok_len = u1 in LENGTH_UNITS and u2 in LENGTH_UNITS
        ok_ang = u1 in ANGLE_UNITS and u2 in ANGLE_UNITS
        try:
            m.change_unit(u2)
        except metrics.MetricsException:
            if u1 is u2 or ok_len or ok_ang:
                raise Mismatch("conversion %s -> %s refused" % (u1.value, u2.value), observed="spurious_refusal", pair="%s>%s" % (u1.name, u2.name))
            if not np.array_equal(m.error, before) or m.unit is not u1:
                raise Mismatch("refused conversion %s -> %s changed the values or the unit" % (u1.value, u2.value), observed="refused_but_changed")
            continue
        if u1 is u2:
            if not np.array_equal(m.error, before) or m.unit is not u1:
                raise Mismatch("same-unit conversion changed something", observed="noop_changed")
            continue
        if not (ok_len or ok_ang):
            raise Mismatch("conversion %s -> %s was not refused" % (u1.value, u2.value), observed="missing_refusal", pair="%s>%s" % (u1.name, u2.name))
        if m.unit is not u2:
            raise Mismatch("unit not updated after %s -> %s (is %s)" % (u1.value, u2.value, m.unit), observed="unit_not_updated")
        got = np.asarray(m.error, dtype=float)
        if got.shape != before.shape:
            raise Mismatch("value count changed by unit conversion", observed="count")
        for k in range(len(before)):
            x = float(before[k])
            if ok_len:
                exact = Fraction(x) * FACT[u1] / FACT[u2]
            else:
                exact = Fraction(x) * (Fraction(math.pi) / 180 if u2 is Unit.radians else Fraction(180) / Fraction(math.pi))
            e = float(exact)
            tol = 4 * abs(np.spacing(e)) + (4e-16 * abs(e) if ok_ang else 0.0)
            if not abs(float(got[k]) - e) <= tol:
                raise Mismatch("%s -> %s: value %r became %r, exact factor gives %r" % (u1.value, u2.value, x, float(got[k]), e),
                               observed="factor", pair="%s>%s" % (u1.name, u2.name))
    return "units"


# ---- ape()/rpe() results ------------------------------------------------------------------------

def _timed_pair(case):
    ref, est = trajgen.realise_pair(case, with_stamps=True)
    return ref, est


def _check_title(res, name, relation, unit, extra=()):
    title = res.info["title"]
    if not title.startswith(name):
        raise Mismatch("title %r does not name the metric %s" % (title, name), observed="title")
    if REL[relation].value not in title:
        raise Mismatch("title %r does not name the pose relation %r" % (title, REL[relation].value), observed="title")
    if "(%s)" % unit.value not in title:
        raise Mismatch("title %r does not name the unit %r" % (title, unit.value), observed="title_unit")
    for e in extra:
        if e not in title:
            raise Mismatch("title %r lacks %r" % (title, e), observed="title")
    if res.info["label"] != "%s (%s)" % (name, unit.value):
        raise Mismatch("label %r, expected '%s (%s)'" % (res.info["label"], name, unit.value), observed="label")


def _check_companions(res, ids, name):
    """ids: for each error value the index (into the stored trajectories) of the pose it belongs to"""
    n = len(res.np_arrays["error_array"])
    tr_est = res.trajectories["estimate"]
    tr_ref = res.trajectories["reference"]
    for key in ("seconds_from_start", "timestamps", "distances_from_start", "distances"):
        if key not in res.np_arrays:
            raise Mismatch("%s result lacks %s" % (name, key), observed="companion_missing")
        if len(res.np_arrays[key]) != n:
            raise Mismatch("%s: %s has %d entries for %d error values" % (name, key, len(res.np_arrays[key]), n), observed="companion_length", key=key)
    T = np.asarray(tr_est.timestamps)
    if not np.array_equal(res.np_arrays["timestamps"], T[ids]):
        raise Mismatch("%s: timestamps array does not hold the stamps of the poses the values belong to" % name, observed="companion_value", key="timestamps")
    exp_s = T[ids] - T[0]
    if float(np.abs(np.asarray(res.np_arrays["seconds_from_start"]) - exp_s).max(initial=0.0)) > 0.0:
        raise Mismatch("%s: seconds_from_start != t - t_first" % name, observed="companion_value", key="seconds_from_start")
    for key, tr in (("distances_from_start", tr_ref), ("distances", tr_est)):
        acc = np.asarray(rm.accumulated(np.asarray(tr.positions_xyz)))
        got = np.asarray(res.np_arrays[key], dtype=float)
        tol = 1e-9 * (acc[-1] if len(acc) else 0.0) + 1e-300
        if float(np.abs(got - acc[ids]).max(initial=0.0)) > tol:
            raise Mismatch("%s: %s is not the accumulated path length at the poses the values belong to" % (name, key), observed="companion_value", key=key)


def sub_ape_result(case):
    ref, est = _timed_pair(case)
    o = case["opts"]
    relation = o["relation"]
    ro, eo = ref.build(case["ref"]["pre"], timed=True), est.build(case["est"]["pre"], timed=True)
    for v in o.get("pre_derived", ()):
        # derived quantities read before the evaluation (e.g. by an earlier plot or evaluation of the same objects)
        getattr(ro, v), getattr(eo, v)
    unit0 = metrics.APE(REL[relation]).unit
    cu = None
    if o["change_unit"]:
        if unit0 in LENGTH_UNITS:
            cu = [Unit.millimeters, Unit.centimeters, Unit.kilometers, Unit.meters][o["cu_i"] % 4]
        elif unit0 in ANGLE_UNITS:
            cu = Unit.degrees if unit0 is Unit.radians else Unit.radians
    try:
        res = main_ape.ape(ro, eo, REL[relation], align=o["align"], correct_scale=o["correct_scale"], align_origin=o["align_origin"],
                           ref_name="reference", est_name="estimate", change_unit=cu)
    except geometry.GeometryException:
        return "refused"
    unit = cu or unit0
    n = ref.n
    if len(res.np_arrays["error_array"]) != n:
        raise Mismatch("APE result has %d values for %d poses" % (len(res.np_arrays["error_array"]), n), observed="count")
    if res.trajectories["estimate"] is not eo and res.trajectories["estimate"].num_poses != n:
        raise Mismatch("stored estimate is not the processed one", observed="stored_traj")
    # stored trajectories are the processed ones the values were computed on
    chk = metrics.APE(REL[relation])
    chk.process_data((res.trajectories["reference"], res.trajectories["estimate"]))
    if cu:
        chk.change_unit(cu)
    if not np.allclose(chk.error, res.np_arrays["error_array"], rtol=1e-12, atol=0):
        raise Mismatch("error values are not those of the stored trajectories", observed="stored_traj")
    _check_companions(res, list(range(n)), "APE")
    extra = []
    if o["align"] and o["correct_scale"]:
        extra.append("Sim(3)")
    elif o["align"]:
        extra.append("SE(3)")
    elif o["correct_scale"]:
        extra.append("scale")
    if o["align_origin"]:
        extra.append("origin")
    _check_title(res, "APE", relation, unit, extra)
    st_ref = rm.statistics(res.np_arrays["error_array"])
    for k, v in st_ref.items():
        _rel_close(float(res.stats[k]), v, 1e-9, "result stats " + k, 1e-300 if k != "std" else 1e-9 * abs(st_ref["mean"]) + 1e-300)
    return "ape/" + ("cu" if cu else "plain")


def sub_rpe_result(case):
    ref, est = _timed_pair(case)
    o = case["opts"]
    relation = o["relation"]
    n = ref.n
    delta = 1 + o["delta"] % max(1, n - 1)
    dunit = o.get("dunit", "f")
    if dunit != "f":
        return _rpe_result_other_units(case, ref, est, o, dunit)
    ro, eo = ref.build(case["ref"]["pre"], timed=True), est.build(case["est"]["pre"], timed=True)
    unit0 = metrics.RPE(REL[relation]).unit
    cu = None
    if o["change_unit"] and unit0 in LENGTH_UNITS:
        cu = [Unit.millimeters, Unit.centimeters, Unit.kilometers][o["cu_i"] % 3]
    if o["still"]:
        # stationary stretches of the reference: zero reference distances (skipped by the ratio relation)
        P = ref.P.copy()
        for i in range(1, n, 2):
            P[i] = P[i - 1]
        ref = trajgen.Real(P, ref.Rs(), ref.mode, ref.T)
        ro = ref.build(case["ref"]["pre"], timed=True)
    for v in o.get("pre_derived", ()):
        getattr(ro, v), getattr(eo, v)
    try:
        res = main_rpe.rpe(ro, eo, REL[relation], float(delta), Unit.frames, all_pairs=o["all_pairs"], align=o["align"],
                           ref_name="reference", est_name="estimate", change_unit=cu, support_loop=o["support_loop"])
    except (geometry.GeometryException, filters.FilterException):
        return "refused"
    except ValueError:
        # every reference distance zero -> empty ratio array -> numpy.min dies: outside the domain (>= 1 value)
        if relation == "point_distance_error_ratio":
            return "empty_ratio"
        raise
    if o["all_pairs"]:
        pairs = [(i, i + delta) for i in range(n) if i + delta < n]
    else:
        pairs = [(k, k + delta) for k in range(0, n, delta) if k + delta < n]
    if relation == "point_distance_error_ratio":
        Pref = np.asarray(res.trajectories["reference"].positions_xyz) if False else None
    ends_all = [j for _, j in pairs]
    nvals = len(res.np_arrays["error_array"])
    tr_est = res.trajectories["estimate"]
    tr_ref = res.trajectories["reference"]
    if tr_est.num_poses != nvals + 1 or tr_ref.num_poses != nvals + 1:
        raise Mismatch("stored trajectories have %d/%d poses for %d values (expected first pose + pair end poses)" % (
            tr_ref.num_poses, tr_est.num_poses, nvals), observed="stored_traj")
    # identify stored poses among the processed estimate's stamps
    T_in = est.T
    stamps = np.asarray(tr_est.timestamps)
    ids = [int(np.searchsorted(T_in, t)) for t in stamps]
    if not np.array_equal(T_in[ids], stamps):
        raise Mismatch("stored estimate stamps are not input stamps", observed="stored_traj")
    if ids[0] != 0:
        raise Mismatch("stored estimate does not start with the first pose", observed="stored_traj")
    ends = ids[1:]
    if relation != "point_distance_error_ratio":
        if ends != ends_all:
            raise Mismatch("stored poses %s are not the pair end poses %s" % (ends, ends_all), observed="stored_traj")
    else:
        # zero reference distances skipped: ends must be the sub-sequence with non-zero reference distance
        keep = [j for (i, j) in pairs if float(np.linalg.norm(ref.P[j] - ref.P[i])) != 0.0] if not o["align"] else None
        if keep is not None and ends != keep:
            raise Mismatch("ratio: stored poses %s, pairs with non-zero reference distance end at %s" % (ends, keep), observed="stored_traj")
    if not np.array_equal(np.asarray(tr_ref.timestamps), ref.T[ids]):
        raise Mismatch("stored reference and estimate are not reduced to the same poses", observed="stored_traj")
    _check_companions(res, list(range(1, nvals + 1)), "RPE")
    unit = cu or unit0
    extra = ["delta = %d (frames)" % delta, "all pairs" if o["all_pairs"] else "consecutive pairs"]
    _check_title(res, "RPE", relation, unit, extra)
    st_ref = rm.statistics(res.np_arrays["error_array"])
    for k, v in st_ref.items():
        _rel_close(float(res.stats[k]), v, 1e-9, "result stats " + k, 1e-300 if k != "std" else 1e-9 * abs(st_ref["mean"]) + 1e-300)
    return "rpe/%s%s" % ("all" if o["all_pairs"] else "cons", "/ratio" if relation == "point_distance_error_ratio" else "")


def _rpe_result_other_units(case, ref, est, o, dunit):
    """delta in meters / radians (consecutive or all pairs): several pairs may end at the same pose; one companion entry per value"""
    relation = o["relation"]
    if o["still"]:
        P = est.P.copy()
        for i in range(2, est.n, 3):
            P[i] = P[i - 1]
        est = trajgen.Real(P, est.Rs(), est.mode, est.T)
    eo_sel = est.build(timed=True)
    if dunit == "m":
        acc = rm.accumulated(est.P)
        delta = max(acc[-1], 1e-6) * (0.15 + 0.1 * (o["delta"] % 5))
        unit = Unit.meters
    else:
        delta = 0.05 + 0.3 * (o["delta"] % 6)
        unit = Unit.radians
    try:
        pairs = metrics.id_pairs_from_delta(eo_sel.poses_se3, delta, unit, 0.3, o["all_pairs"])
    except filters.FilterException:
        pairs = None
    ro, eo = ref.build(case["ref"]["pre"], timed=True), est.build(case["est"]["pre"], timed=True)
    try:
        res = main_rpe.rpe(ro, eo, REL[relation], float(delta), unit, rel_delta_tol=0.3, all_pairs=o["all_pairs"], ref_name="reference",
                           est_name="estimate", support_loop=o["support_loop"])
    except filters.FilterException:
        if pairs is not None:
            raise Mismatch("rpe() refused although pairs exist", observed="spurious_refusal")
        return "refused"
    except ValueError:
        if relation == "point_distance_error_ratio":
            return "empty_ratio"
        raise
    if pairs is None:
        raise Mismatch("rpe() returned a result although no pair realises the delta", observed="missing_refusal")
    ends = [int(j) for i, j in pairs]
    if relation == "point_distance_error_ratio":
        ends = [int(j) for i, j in pairs if float(np.linalg.norm(ref.P[j] - ref.P[i])) != 0.0]
    nvals = len(res.np_arrays["error_array"])
    if nvals != len(ends):
        raise Mismatch("rpe(): %d values for %d selected pairs" % (nvals, len(ends)), observed="count")
    tr_est = res.trajectories["estimate"]
    tr_ref = res.trajectories["reference"]
    if tr_est.num_poses != nvals + 1 or tr_ref.num_poses != nvals + 1:
        raise Mismatch("stored trajectories have %d/%d poses for %d values (first pose + one end pose per value expected; pair ends %s)" % (
            tr_ref.num_poses, tr_est.num_poses, nvals, ends), observed="stored_traj")
    exp_T = est.T[[0] + ends]
    if not np.array_equal(np.asarray(tr_est.timestamps), exp_T) or not np.array_equal(np.asarray(tr_ref.timestamps), ref.T[[0] + ends]):
        raise Mismatch("stored trajectories are not the first pose followed by the pair end poses %s" % ends, observed="stored_traj")
    _check_companions(res, list(range(1, nvals + 1)), "RPE")
    _check_title(res, "RPE", relation, metrics.RPE(REL[relation]).unit, ["all pairs" if o["all_pairs"] else "consecutive pairs", "(%s)" % unit.value])
    return "rpe/%s/%s%s" % (dunit, "all" if o["all_pairs"] else "cons", "/repeated_ends" if len(set(ends)) != len(ends) else "")


st_vals = st.fixed_dictionaries({
    "vals": st.lists(st.one_of(st.just(0.0), gen.fl(1e-6, 1.0)), min_size=1, max_size=200), "mag": gen.log_uniform(-12, 6), "const": st.booleans(),
    "cls": st.sampled_from(["ape", "rpe"])})
st_bulkvals = st.fixed_dictionaries({
    "bulk": st.fixed_dictionaries({"n": st.sampled_from([1000, 100000, 1000000]), "seed": st.integers(0, 2 ** 32),
                                   "mag": gen.log_uniform(-12, 6), "const": st.booleans()}),
    "cls": st.sampled_from(["ape", "rpe"])})
st_unitvals = st.fixed_dictionaries({"vals": st.lists(st.one_of(st.just(0.0), gen.fl(1e-6, 1.0)), min_size=1, max_size=6), "mag": gen.log_uniform(-12, 6)})


def _pair_with(opts):
    return st.tuples(trajgen.st_pair(2, 12, stamps=True, exp_lo=-2, exp_hi=5), opts).map(lambda t: dict(t[0], opts=t[1]))


st_ape = _pair_with(st.fixed_dictionaries({
    "relation": st.sampled_from([r for r in rm.RELATIONS if r != "point_distance_error_ratio"]), "align": st.booleans(),
    "correct_scale": st.booleans(), "align_origin": st.booleans(), "change_unit": st.booleans(), "cu_i": st.integers(0, 3),
    "pre_derived": st.lists(st.sampled_from(["distances", "path_length", "speeds"]), max_size=2, unique=True)}))
st_rpe = _pair_with(st.fixed_dictionaries({
    "relation": st.sampled_from(list(rm.RELATIONS) + ["point_distance_error_ratio"] * 3), "align": st.booleans(), "all_pairs": st.booleans(), "delta": st.integers(0, 12),
    "change_unit": st.booleans(), "cu_i": st.integers(0, 3), "support_loop": st.booleans(), "still": st.booleans(),
    "pre_derived": st.lists(st.sampled_from(["distances", "path_length", "speeds"]), max_size=2, unique=True),
    "dunit": st.sampled_from(["f", "f", "m", "r"])}))

SUBS = [
    Sub("stats", sub_stats, st_vals, 2500, 80000, nontrivial=lambda c: len(set(c["vals"])) >= 2 and not c["const"]),
    Sub("stats_bulk", sub_stats, st_bulkvals, 12, 200, nontrivial=lambda c: not c["bulk"]["const"], shards_quick=4),
    Sub("units", sub_units, st_unitvals, 300, 10000),
    Sub("stats_history", sub_stats_history, st.fixed_dictionaries({
        "vals": st.lists(st.one_of(st.just(0.0), gen.fl(1e-6, 1.0)), min_size=1, max_size=30), "mag": gen.log_uniform(-6, 4), "const": st.booleans(),
        "cls": st.sampled_from(["ape", "rpe"]), "read_first": st.booleans()}), 300, 10000, nontrivial=lambda c: c["read_first"]),
    Sub("ape_result", sub_ape_result, st_ape, 800, 30000, nontrivial=lambda c: c["ref"]["n"] >= 2),
    Sub("rpe_result", sub_rpe_result, st_rpe, 1400, 40000, nontrivial=lambda c: c["ref"]["n"] >= 3, shards_quick=8),
]


# ---- the result evo_ape saves when plots are requested as well (plotting runs before saving) -------------------
from vf.checks import c01 as _c01
SUBS.append(Sub("cli_plot", _c01.sub_cli_with_companions, _c01.st_cli(force_plot=True), 250, 8000, nontrivial=lambda c: True, shards_quick=4))
