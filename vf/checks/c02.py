"""C02 — RPE values equal the definition over exactly the selected pose pairs."""
import math

import numpy as np
from hypothesis import strategies as st

from vf import gen, refmodel as rm, trajgen, snapshot, pairsel
from vf.core import Mismatch, Sub, Skip
from vf.checks.c01 import REL, compare_values, tol_for

from evo.core import metrics, filters
from evo.core.metrics import Unit

PROPERTY = "C02"
RULE = ("core: Hypothesis pairs of equally long sequences (2-40 poses drawn, bulk to 3000), reference with stationary "
        "stretches, estimate with different geometry, x delta unit {frames,m,rad,deg} x delta (incl. realised values) x "
        "all_pairs x pairs_from_reference x 7 relations x tolerance; cli: evo_rpe in-process on generated files. "
        "Non-trivial = >= 1 pair and ref/est relative motions differ; distinct by SHA-1"
        ' Round-3 additions: cli checks metres chains (every admissible start) and all-pairs selections/values against the definition on the processed trajectories, tolerance 0; metamorphic invariance also for metre/angle deltas when no selection decision is within rounding of its threshold.')
ASSUMPTIONS = ["pair lists come from evo's selectors (validated separately by C10) and are compared with RPE.delta_ids",
               "reference RPE definition in vf/refmodel.py; tolerances as C01"]

UNITS = {"f": Unit.frames, "m": Unit.meters, "r": Unit.radians, "d": Unit.degrees}


def _pairs(poses, case):
    return metrics.id_pairs_from_delta(poses, case["delta"], UNITS[case["unit"]], case["tol"], all_pairs=case["all_pairs"])


def _stationary(real, flags):
    """copy positions of the previous pose where flagged (zero reference distances)"""
    P = real.P.copy()
    for i in range(1, real.n):
        f = flags[i % len(flags)]
        if f is True:
            P[i] = P[i - 1]
        elif f == "creep":
            # almost stationary: a tiny but non-zero reference distance (such pairs are NOT skipped by the ratio relation)
            P[i] = P[i - 1]
            P[i, 0] = P[i, 0] + 3e-9 * (abs(P[i, 0]) + 1.0) if abs(P[i, 0]) < 1e-3 else np.nextafter(P[i, 0], np.inf)
    return trajgen.Real(P, real.Rs(), real.mode, real.T)


def _delta(case, ref, est):
    """turn the drawn delta spec into a number; 'realised' picks a realised path length / angle"""
    d = case["delta_spec"]
    unit = case["unit"]
    if unit == "f":
        return int(d["frames"])
    src = ref if case["from_ref"] else est
    if unit == "m":
        acc = rm.accumulated(src.P)
        if d["kind"] == "realised" and len(acc) > 1:
            v = acc[1 + d["idx"] % (len(acc) - 1)]
            return float(v) if v > 0 else float(d["value"]) * src_extent(src)
        return float(d["value"]) * src_extent(src)
    # angles
    th = float(d["angle"])  # in (0, pi)
    return th if unit == "r" else math.degrees(th)


def src_extent(src):
    acc = rm.accumulated(src.P)
    return max(acc[-1], 1e-6)


def _setup(case):
    ref, est = trajgen.realise_pair(case)
    ref = _stationary(ref, case["still"])
    c = dict(case)
    c["delta"] = _delta(case, ref, est)
    return ref, est, c


def sub_definition(case):
    ref, est, c = _setup(case)
    scale = trajgen.coord_scale(ref, est)
    ro, eo = ref.build(case["ref"]["pre"]), est.build(case["est"]["pre"])
    src = ref if c["from_ref"] else est
    # the selectors get the very matrices evo derives for these objects (borderline >= decisions
    # must not depend on which quaternion->matrix routine rounded how)
    try:
        pairs = _pairs(src.build().poses_se3, c)
    except filters.FilterException:
        pairs = None
    other = est if c["from_ref"] else ref
    try:
        pairs_other = _pairs(other.build().poses_se3, c)
    except filters.FilterException:
        pairs_other = None
    relation = c["relation"]
    m = metrics.RPE(REL[relation], c["delta"], UNITS[c["unit"]], c["tol"], c["all_pairs"], c["from_ref"])
    sr, se = snapshot.snapshot(ro), snapshot.snapshot(eo)
    try:
        m.process_data((ro, eo))
    except filters.FilterException:
        if pairs is not None:
            raise Mismatch("RPE refused although the selector finds pairs on the %s" % ("reference" if c["from_ref"] else "estimate"),
                           observed="spurious_refusal")
        return "no_pairs"
    if pairs is None:
        raise Mismatch("RPE produced values although the selector finds no pairs on the %s" % ("reference" if c["from_ref"] else "estimate"),
                       observed="wrong_source" if pairs_other is not None else "missing_refusal")
    exp, kept = rm.rpe_values(ref.poses, est.poses, pairs, relation)
    exp_ids = [pairs[k][1] for k in kept]
    got_ids = [int(j) for j in m.delta_ids]
    if len(m.error) != len(got_ids):
        raise Mismatch("%d values but %d pair end indices" % (len(m.error), len(got_ids)), observed="count", relation=relation)
    if got_ids != exp_ids:
        tag = "ids"
        if pairs_other is not None and got_ids == [pairs_other[k][1] for k in rm.rpe_values(ref.poses, est.poses, pairs_other, relation)[1]]:
            tag = "wrong_source"
        raise Mismatch("delta_ids %s, selected pair ends are %s (pairs %s)" % (got_ids, exp_ids, pairs), observed=tag, relation=relation)
    # tolerance: E contains differences of relative translations -> scale by coordinates
    compare_values(m.error, exp, relation, scale * 4, "RPE.error") if relation != "point_distance_error_ratio" else _cmp_ratio(m.error, exp, ref, pairs, kept, scale)
    d = snapshot.diff(sr, ro) + snapshot.diff(se, eo)
    if d:
        raise Mismatch("RPE.process_data modified its inputs: %s" % d, observed="input_modified")
    label = "%s/%s%s" % (c["unit"], "all" if c["all_pairs"] else "cons", "/ref" if c["from_ref"] else "")
    if relation == "point_distance_error_ratio" and len(kept) != len(pairs):
        label += "/zero_ref_dist"
    if pairs_other != pairs:
        label += "/sel_differs"
    return label


def _cmp_ratio(got, exp, ref, pairs, kept, scale):
    got = np.asarray(got, dtype=float)
    if got.shape != np.asarray(exp).shape:
        raise Mismatch("ratio: %d values for %d pairs with non-zero reference distance" % (got.size, len(exp)), observed="count",
                       relation="point_distance_error_ratio")
    for k, (g, e) in enumerate(zip(got, exp)):
        i, j = pairs[kept[k]]
        dr = float(np.linalg.norm(ref.P[j] - ref.P[i]))
        tol = (64 * rm.EPS * scale * 4) / dr * 100 + 1e-9 * abs(e)
        if not abs(g - e) <= tol:
            raise Mismatch("ratio value %d is %r, definition gives %r" % (k, g, e), observed="value", relation="point_distance_error_ratio")


def _selection_ambiguous(src, c):
    """True if some decision of the pair selection rule (walk from pose 0, '>=' on accumulated path / rotation; all-pairs
    windows) lies within rounding of its threshold on this trajectory"""
    unit = c["unit"]
    delta = float(c["delta"])
    N = src.n
    if unit == "m":
        w = rm.step_lengths(src.P)
        margin = 256 * rm.EPS * (float(np.abs(src.P).max()) + 1.0) * N + 1e-12 * delta
    else:
        Rs = src.Rs()
        w = pairsel.consecutive_angles(Rs)
        delta = delta if unit == "r" else math.radians(delta)
        margin = 1e-7
    if not c["all_pairs"]:
        last = 0
        for k in range(1, N):
            acc = math.fsum(w[last:k])
            if abs(acc - delta) <= margin:
                return True
            if acc >= delta:
                last = k
        return False
    tol = delta * float(c["tol"])
    if unit == "m":
        for i in range(N - 1):
            d = sorted(abs(math.fsum(w[i:j]) - delta) for j in range(i + 1, N))
            if abs(d[0] - tol) <= 2 * margin or (len(d) > 1 and d[1] - d[0] <= 2 * margin):
                return True
        return False
    for i in range(N):
        for j in range(i + 1, N):
            a = rm.rot_angle_between(Rs[i], Rs[j])
            if abs(a - (delta - tol)) <= margin or abs(a - (delta + tol)) <= margin:
                return True
    return False


def sub_metamorphic(case):
    """S4: independent rigid motions of ref and est leave values and pairs unchanged; S5: est = T*ref -> zero."""
    if case["unit"] == "m":
        # a realised path length as delta is a borderline decision by construction: use the free value here
        case = dict(case, delta_spec=dict(case["delta_spec"], kind="free"))
    ref, est, c = _setup(case)
    M1 = rm.se3(gen.rot_matrix(case["M1"]["rot"]), np.asarray(case["M1"]["t"], dtype=float) * float(case["M1"]["mag"]))
    M2 = rm.se3(gen.rot_matrix(case["M2"]["rot"]), np.asarray(case["M2"]["t"], dtype=float) * float(case["M2"]["mag"]))
    ref2, est2 = ref.left(M1), est.left(M2)
    if c["unit"] != "f":
        # path/angle selection under a rigid motion can flip a borderline >= decision: the selection is only compared
        # when no decision of the selection rule is within rounding of its threshold, before and after the motion
        src, src2 = (ref, ref2) if c["from_ref"] else (est, est2)
        if _selection_ambiguous(src, c) or _selection_ambiguous(src2, c):
            c["unit"] = "f"
            c["delta"] = 1 + int(case["delta_spec"]["frames"]) % max(1, ref.n - 1)
    scale = 4 * max(trajgen.coord_scale(ref, est), trajgen.coord_scale(ref2, est2))
    relation = c["relation"]
    if relation == "point_distance_error_ratio":
        relation = "point_distance"

    def run(a, b):
        m = metrics.RPE(REL[relation], c["delta"], UNITS[c["unit"]], c["tol"], c["all_pairs"], c["from_ref"])
        m.process_data((a.build(), b.build()))
        return np.asarray(m.error), list(m.delta_ids)

    try:
        base, ids = run(ref, est)
    except filters.FilterException:
        return "no_pairs"
    try:
        moved, ids2 = run(ref2, est2)
    except filters.FilterException:
        raise Mismatch("no pairs found any more after rigid motions of reference and estimate (before: pair ends %s)" % ids, observed="ids", law="rigid_motion")
    if ids2 != ids:
        raise Mismatch("pair ends changed under rigid motions: %s -> %s" % (ids, ids2), observed="ids", law="rigid_motion")
    compare_values(moved, base, relation, scale, "RPE after independent rigid motions of ref and est", law="rigid_motion")
    try:
        same, _ = run(ref, ref.left(M2))
    except filters.FilterException:
        return "no_pairs_on_copy"
    compare_values(same, np.zeros(len(same)), relation, scale, "RPE of a rigidly moved copy must vanish", law="same_motion")
    return "%s/%s" % (c["unit"], "all" if c["all_pairs"] else "cons")


def sub_reuse(case):
    """history on one metric object: a second evaluation gives what a fresh object gives (one value per selected pair)"""
    ref, est, c = _setup(case)
    relation = c["relation"]
    ref_b = ref.left(rm.se3(gen.rot_matrix(case["M1"]["rot"]), np.asarray(case["M1"]["t"], dtype=float)))
    est_b = trajgen.Real(est.P[::-1].copy(), est.Rs()[::-1], est.mode)

    def fresh():
        return metrics.RPE(REL[relation], c["delta"], UNITS[c["unit"]], c["tol"], c["all_pairs"], c["from_ref"])

    def run(m, a, b):
        try:
            m.process_data((a.build(), b.build()))
        except filters.FilterException:
            return None
        return np.asarray(m.error, dtype=float).copy(), list(m.delta_ids)
    shared = fresh()
    first = run(shared, ref, est)
    second = run(shared, ref_b, est_b)
    exp = run(fresh(), ref_b, est_b)
    if (second is None) != (exp is None):
        raise Mismatch("a reused RPE object refuses/accepts differently from a fresh one", observed="reuse")
    if second is not None:
        if len(second[0]) != len(second[1]) or second[1] != exp[1] or second[0].shape != exp[0].shape or not np.array_equal(second[0], exp[0], equal_nan=True):
            raise Mismatch("second evaluation on the same RPE object: %d values / %d pair ends, a fresh object gives %d / %d" % (
                len(second[0]), len(second[1]), len(exp[0]), len(exp[1])), observed="reuse", relation=relation)
    # the same for APE
    ma = metrics.APE(REL[relation]) if relation != "point_distance_error_ratio" else None
    if ma is not None:
        ma.process_data((ref.build(), est.build()))
        ma.process_data((ref_b.build(), est_b.build()))
        mf = metrics.APE(REL[relation])
        mf.process_data((ref_b.build(), est_b.build()))
        if not np.array_equal(np.asarray(ma.error), np.asarray(mf.error), equal_nan=True):
            raise Mismatch("second evaluation on the same APE object differs from a fresh object", observed="reuse", relation=relation)
    return "reuse"


def sub_unequal(case):
    ref, est, c = _setup(case)
    if ref.n < 3:
        return
    k = int(case["drop"]) % est.n
    short = trajgen.Real(np.delete(est.P, k, axis=0), [R for i, R in enumerate(est.Rs()) if i != k], est.mode)
    for a, b in ((ref, short), (short, ref)):
        m = metrics.RPE(REL[c["relation"]], 1, Unit.frames, 0.1, c["all_pairs"], c["from_ref"])
        try:
            m.process_data((a.build(), b.build()))
        except metrics.MetricsException:
            continue
        raise Mismatch("sequences of %d and %d poses were not refused" % (a.n, b.n), observed="not_refused")


def sub_bulk(case):
    n = int(case["n"])
    ref = trajgen.bulk_real(n, case["seed"], "se3", mag=float(case["mag"]), off=int(case["off"]))
    est = trajgen.bulk_real(n, case["seed"] + 7, "pq", mag=float(case["mag"]), off=int(case["off"]))
    est = trajgen.Real(ref.P + 0.05 * (est.P - est.P.mean(axis=0)), est.Rs(), "pq")
    relation = case["relation"]
    unit = case["unit"]
    delta = {"f": case["frames"], "m": float(case["mag"]) * 0.3, "r": 1.0, "d": 60.0}[unit]
    m = metrics.RPE(REL[relation], delta, UNITS[unit], 0.1, False, case["from_ref"])
    try:
        m.process_data((ref.build(), est.build()))
    except filters.FilterException:
        return "no_pairs"
    src = ref if case["from_ref"] else est
    pairs = metrics.id_pairs_from_delta(src.build().poses_se3, delta, UNITS[unit], 0.1, False)
    exp, kept = rm.rpe_values(ref.poses, est.poses, pairs, relation)
    if [int(j) for j in m.delta_ids] != [pairs[k][1] for k in kept]:
        raise Mismatch("bulk: delta_ids differ from selected pair ends", observed="ids")
    if relation == "point_distance_error_ratio":
        _cmp_ratio(m.error, exp, ref, pairs, kept, trajgen.coord_scale(ref, est))
    else:
        compare_values(m.error, exp, relation, 4 * trajgen.coord_scale(ref, est), "RPE.error (bulk n=%d)" % n)


st_delta = st.fixed_dictionaries({
    "frames": st.integers(1, 6), "kind": st.sampled_from(["realised", "free"]), "idx": st.integers(0, 40),
    "value": gen.fl(0.01, 1.2), "angle": st.one_of(gen.fl(1e-3, 3.1), st.sampled_from([math.pi / 8, math.pi / 2]))})
st_opts = st.fixed_dictionaries({
    "unit": st.sampled_from(["f", "f", "m", "r", "d"]), "delta_spec": st_delta, "all_pairs": st.booleans(),
    "from_ref": st.booleans(), "relation": st.sampled_from(rm.RELATIONS), "tol": st.sampled_from([0.0, 0.1, 0.5]),
    "still": st.lists(st.sampled_from([False, False, True, "creep"]), min_size=1, max_size=6)})
st_M = st.fixed_dictionaries({"rot": gen.st_rotation_generic, "t": st.lists(gen.unit_f, min_size=3, max_size=3),
                              "mag": gen.log_uniform(-1, 3)})


def _merge(*ds):
    out = {}
    for d in ds:
        out.update(d)
    return out


st_case = st.tuples(trajgen.st_pair(2, 14, exp_lo=-2, exp_hi=5), st_opts).map(lambda t: _merge(*t))
st_meta = st.tuples(trajgen.st_pair(2, 10, exp_lo=-2, exp_hi=4), st_opts, st_M, st_M).map(
    lambda t: _merge(t[0], t[1], {"M1": t[2], "M2": t[3]}))
st_uneq = st.tuples(trajgen.st_pair(3, 8), st_opts, st.integers(0, 7)).map(lambda t: _merge(t[0], t[1], {"drop": t[2]}))
st_bulk = st.fixed_dictionaries({
    "n": st.sampled_from([300, 3000]), "seed": st.integers(0, 2 ** 32), "mag": st.sampled_from([1.0, 100.0]),
    "off": st.integers(0, 2), "relation": st.sampled_from(rm.RELATIONS), "unit": st.sampled_from(["f", "m", "r", "d"]),
    "frames": st.sampled_from([1, 7, 100]), "from_ref": st.booleans()})

SUBS = [
    Sub("definition", sub_definition, st_case, 2500, 80000, nontrivial=lambda c: True),
    Sub("metamorphic", sub_metamorphic, st_meta, 1500, 40000, nontrivial=lambda c: True),
    Sub("unequal", sub_unequal, st_uneq, 200, 5000),
    Sub("reuse", sub_reuse, st_meta, 300, 10000, nontrivial=lambda c: True),
    Sub("bulk", sub_bulk, st_bulk, 12, 300, shards_quick=4),
]


# ---- CLI level: evo_rpe on generated files ---------------------------------------------------------

import os

from vf import cli, pipeline, pairsel
from vf.checks.c01 import run_cli_case, _find, st_data, _mk_cli_case
from vf.pairsel import Bad


def sub_cli(case):
    o = case["opts"]
    extra = ["--delta", repr(float(o["delta"])) if o["delta_unit"] != "f" else str(int(o["delta"])), "--delta_unit", o["delta_unit"],
             "--delta_tol", repr(float(o["delta_tol"]))]
    if o["all_pairs"]:
        extra.append("--all_pairs")
    if o["pairs_from_reference"]:
        extra.append("--pairs_from_reference")
    try:
        c, d, ref, est, files, out, out_zip = run_cli_case(case, "rpe", extra)
    except ValueError as e:
        if o["relation"] == "point_distance_error_ratio" and "zero-size array" in str(e):
            # every selected pair has zero reference distance and is skipped: there are no values to judge (evo then
            # fails in numpy while computing statistics of nothing - not a statement of this property)
            return "ratio_all_pairs_skipped"
        raise
    o = c["opts"]
    fmt = c["fmt"]
    exp = pipeline.process_reference(c, fmt, ref, est)
    if out.exit_code != 0:
        # refusals: no pairs after association, degenerate alignment, or no pose pair realises the delta
        return "refused/%s" % str(out.refused).split(":")[0][:40]
    if exp == "refused":
        raise Mismatch("evo_rpe produced a result although the documented processing chain leaves no pose pairs", observed="missing_refusal")
    arch = cli.read_archive(out_zip)
    arch["trajs"] = {"ref": _find(arch, files[2] if fmt == "bag" else files[1]), "est": _find(arch, files[3] if fmt == "bag" else files[2])}
    rsel, esel = exp
    sest = arch["trajs"]["est"]
    sref = arch["trajs"]["ref"]
    got = np.asarray(arch["arrays"]["error_array"], dtype=float)
    nvals = len(got)
    if len(sest["P"]) != nvals + 1 or len(sref["P"]) != nvals + 1:
        raise Mismatch("archive stores %d/%d poses for %d values (expected first pose + one end pose per value)" % (len(sref["P"]), len(sest["P"]), nvals),
                       observed="stored_traj")
    if sest["T"] is not None:
        # which of the associated pairs are stored
        lut = {float(t): i for i, t in enumerate(est[0][esel].tolist())}
        try:
            stored_idx = [lut[float(t)] for t in sest["T"].tolist()]
        except KeyError:
            raise Mismatch("a stored estimate stamp is not one of the associated poses", observed="pair_selection")
        if not np.array_equal(sref["T"], ref[0][[rsel[i] for i in stored_idx]]):
            raise Mismatch("stored reference and estimate are not the same associated pairs", observed="pair_selection")
        if not np.array_equal(np.asarray(arch["arrays"]["timestamps"]), sest["T"][1:]):
            raise Mismatch("timestamps array is not the stamps of the pair end poses", observed="timestamps")
    else:
        # KITTI: identify by (unaligned, unprojected) order is impossible in general; frames chains only
        stored_idx = None
    relation = pipeline.REL_CLI.get(o["relation"], o["relation"])
    unit = o["delta_unit"]
    chain0 = (not o["all_pairs"]) and unit in ("f", "r", "d")
    ratio_skips = False
    if relation == "point_distance_error_ratio":
        ratio_skips = True   # unless shown otherwise below
    if relation == "point_distance_error_ratio" and chain0:
        # pairs with zero reference distance are skipped, then stored consecutive poses are no longer the pairs
        if unit != "f":
            chain0 = False
        else:
            dl = int(o["delta"])
            Pr_sel = ref[1][rsel]
            if o.get("project"):
                chain0 = False
            elif any(float(np.linalg.norm(Pr_sel[k + dl] - Pr_sel[k])) == 0.0 for k in range(0, len(rsel) - dl, dl)):
                chain0 = False
            else:
                ratio_skips = False
    if stored_idx is not None:
        if stored_idx[0] != 0 or (not o["all_pairs"] and any(b <= a for a, b in zip(stored_idx, stored_idx[1:]))):
            raise Mismatch("stored poses %s are not the first pose followed by increasing pair ends" % stored_idx[:10], observed="stored_traj")
        pipeline.check_alignment_stage(c, arch, ref, est, rsel, esel, "rpe", stored_idx)
        if chain0 and not o.get("project"):
            # the stored ids must be exactly the chain selected on the processed trajectory
            src_is_ref = bool(o["pairs_from_reference"])
            A = np.asarray(arch["arrays"].get("alignment_transformation_sim3", np.eye(4)), dtype=float)
            s = float(np.cbrt(np.linalg.det(A[:3, :3])))
            if src_is_ref:
                Rs = [rm.quat_to_R(q) for q in ref[2][rsel]]
            else:
                Rs = [(A[:3, :3] / s) @ rm.quat_to_R(q) for q in est[2][esel]]
            pairs = list(zip(stored_idx, stored_idx[1:]))
            try:
                if unit == "f":
                    pairsel.check_frames(pairs, len(rsel), int(o["delta"]), False)
                else:
                    dlt = float(o["delta"]) if unit == "r" else math.radians(float(o["delta"]))
                    pairsel.check_chain(pairs, pairsel.consecutive_angles(Rs), dlt, 1e-7, "angle")
            except Bad as b:
                raise Mismatch("evo_rpe: the stored pair chain %s is not the selection on the processed %s: %s" % (
                    pairs[:8], "reference" if src_is_ref else "estimate", b.msg), observed="pair_selection", clause=b.clause)
    if stored_idx is not None and not o.get("project") and not (chain0 and unit != "m") and not ratio_skips:
        _check_cli_pairs_general(o, arch, ref, est, rsel, esel, stored_idx, got, relation)
    if (chain0 or (stored_idx is None and unit == "f" and not o["all_pairs"])) and not ratio_skips:
        n = nvals + 1
        pairs = [(i, i + 1) for i in range(n - 1)]
        vals, kept = rm.rpe_values(sref["poses"], sest["poses"], pairs, relation)
        if relation == "point_distance_error_ratio":
            if len(kept) != len(pairs):
                raise Mismatch("a stored pair has zero reference distance although such pairs are skipped", observed="ratio_zero")
        fact = 1.0
        cu = o.get("change_unit")
        if cu:
            if relation in ("translation_part", "point_distance"):
                fact = pipeline.UNIT_FACT[cu]
            elif relation == "rotation_angle_rad":
                fact = 180.0 / math.pi
            elif relation == "rotation_angle_deg":
                fact = math.pi / 180.0
        scale = 4 * (max(float(np.abs(sref["P"]).max()), float(np.abs(sest["P"]).max())) + 1.0)
        for k in range(nvals):
            if relation == "point_distance_error_ratio":
                dr = float(np.linalg.norm(sref["P"][k + 1] - sref["P"][k]))
                tol = (64 * rm.EPS * scale) / dr * 100 * 4 + 1e-9 * abs(vals[k])
            else:
                tol = tol_for(relation, scale, vals[k]) * abs(fact) * 4 + 1e-12 * abs(vals[k] * fact)
            if not abs(got[k] - vals[k] * fact) <= tol:
                raise Mismatch("stored RPE value %d is %r, definition on the stored pair gives %r (%s)" % (k, float(got[k]), float(vals[k] * fact), relation),
                               observed="value", relation=relation)
    st_ref = rm.statistics(got)
    for k, v in st_ref.items():
        if not abs(float(arch["stats"][k]) - v) <= 1e-9 * max(abs(v), abs(float(arch["stats"][k]))) + 1e-300 + (1e-9 * abs(st_ref["mean"]) if k == "std" else 0):
            raise Mismatch("stats.json %s = %r, values give %r" % (k, arch["stats"][k], v), observed="stats")
    return "cli/%s/%s/%s%s" % (fmt, unit, "all" if o["all_pairs"] else "cons", "/tol>1" if float(o["delta_tol"]) > 1 and o["all_pairs"] and unit != "f" else "")


def _expected_pairs_general(o, P, Rs):
    """pairs by the definition on the processed source trajectory; None if some decision is inside the ambiguity margin"""
    unit = o["delta_unit"]
    N = len(P)
    if unit == "f":
        dl = int(o["delta"])
        if o["all_pairs"]:
            return [(i, i + dl) for i in range(N) if i + dl < N]
        return [(k, k + dl) for k in range(0, N, dl) if k + dl < N]
    if unit == "m":
        w = rm.step_lengths(P)
        delta = float(o["delta"])
        margin = 1e-9 * max(math.fsum(w), delta, 1.0)
    else:
        delta = float(o["delta"]) if unit == "r" else math.radians(float(o["delta"]))
        w = pairsel.consecutive_angles(Rs)
        margin = 1e-7
    if not o["all_pairs"]:
        pairs = []
        i = 0
        acc = 0.0
        for k in range(N - 1):
            acc = math.fsum(w[i:k + 1])
            if abs(acc - delta) <= margin:
                return None
            if acc >= delta:
                pairs.append((i, k + 1))
                i = k + 1
        return pairs
    tol = delta * float(o["delta_tol"])
    pairs = []
    if unit == "m":
        for i in range(N - 1):
            d = [abs(math.fsum(w[i:j]) - delta) for j in range(i + 1, N)]
            best = min(d)
            if abs(best - tol) <= margin or sum(1 for v in d if v <= best + margin) > 1:
                return None
            if best <= tol:
                pairs.append((i, i + 1 + d.index(best)))
        return pairs
    for i in range(N):
        for j in range(i + 1, N):
            a = rm.rot_angle_between(Rs[i], Rs[j])
            if abs(a - (delta - tol)) <= margin or abs(a - (delta + tol)) <= margin:
                return None
            if delta - tol <= a <= delta + tol:
                pairs.append((i, j))
    return pairs


def _check_cli_pairs_general(o, arch, ref, est, rsel, esel, stored_idx, got, relation):
    """metres chains and every all-pairs mode: the pair END poses stored in the archive must be the ends of the pairs
    the definition selects on the processed source trajectory (skipped when a decision is within rounding of a
    threshold), and the stored values the definition on those pairs of the processed trajectories"""
    A = np.asarray(arch["arrays"].get("alignment_transformation_sim3", np.eye(4)), dtype=float)
    s = float(np.cbrt(np.linalg.det(A[:3, :3])))
    Rot = A[:3, :3] / s
    Pr_p = ref[1][rsel]
    Rr_p = [rm.quat_to_R(q) for q in ref[2][rsel]]
    Pe_p = (A[:3, :3] @ est[1][esel].T).T + A[:3, 3]
    Re_p = [Rot @ rm.quat_to_R(q) for q in est[2][esel]]
    src = (Pr_p, Rr_p) if o["pairs_from_reference"] else (Pe_p, Re_p)
    if o["delta_unit"] == "m" and not o["all_pairs"]:
        # the chain may start at any pose up to the first one that reaches delta from the beginning (C10); the archive
        # only shows pair ends, so every admissible start of the first pair is tried
        w = rm.step_lengths(src[0])
        delta = float(o["delta"])
        margin = 1e-9 * max(math.fsum(w), delta, 1.0)
        ends = list(stored_idx[1:])
        if not ends or any(b <= a for a, b in zip(ends, ends[1:])):
            raise Mismatch("stored pair ends %s are not increasing" % ends[:10], observed="stored_traj")
        cands = []
        why = None
        for st0 in range(0, ends[0]):
            pairs = list(zip([st0] + ends[:-1], ends))
            try:
                pairsel.check_chain(pairs, w, delta, margin, "path")
                cands.append(pairs)
            except Bad as b:
                why = b
        if not cands:
            raise Mismatch("evo_rpe (consecutive, delta %r m): stored pair ends %s are not the ends of a valid chain on the processed %s: %s" % (
                o["delta"], ends[:12], "reference" if o["pairs_from_reference"] else "estimate", why.msg), observed="pair_selection", clause=why.clause)
        exps = cands
    else:
        exp = _expected_pairs_general(o, *src)
        if exp is None:
            return
        exps = None
    if exps is not None:
        last = None
        for exp in exps:
            try:
                return _check_cli_values_general(o, exp, Pr_p, Rr_p, Pe_p, Re_p, s, got, relation)
            except Mismatch as m:
                last = m
        raise last
    if not exp:
        raise Mismatch("evo_rpe stored %d values although no pose pair of the processed %s realises delta %r %s" % (
            len(got), "reference" if o["pairs_from_reference"] else "estimate", o["delta"], o["delta_unit"]), observed="pair_selection", clause="none_exists")
    ends = [j for i, j in exp]
    if list(stored_idx[1:]) != ends:
        raise Mismatch("evo_rpe (%s, delta %r %s, tol %r): stored pair end poses %s, the definition on the processed %s selects pairs %s" % (
            "all pairs" if o["all_pairs"] else "consecutive", o["delta"], o["delta_unit"], o["delta_tol"], list(stored_idx[1:])[:12],
            "reference" if o["pairs_from_reference"] else "estimate", exp[:12]), observed="pair_selection", clause="general")
    return _check_cli_values_general(o, exp, Pr_p, Rr_p, Pe_p, Re_p, s, got, relation)


def _check_cli_values_general(o, exp, Pr_p, Rr_p, Pe_p, Re_p, s, got, relation):
    rsel = esel = Pr_p
    ref_poses = [rm.se3(Rr_p[k], Pr_p[k]) for k in range(len(rsel))]
    est_poses = [rm.se3(Re_p[k], Pe_p[k]) for k in range(len(esel))]
    vals, kept = rm.rpe_values(ref_poses, est_poses, exp, relation)
    fact = 1.0
    cu = o.get("change_unit")
    if cu:
        if relation in ("translation_part", "point_distance"):
            fact = pipeline.UNIT_FACT[cu]
        elif relation == "rotation_angle_rad":
            fact = 180.0 / math.pi
        elif relation == "rotation_angle_deg":
            fact = math.pi / 180.0
    scale = 4 * (max(float(np.abs(Pr_p).max()), float(np.abs(Pe_p).max())) + 1.0) * max(1.0, s)
    for k in range(len(vals)):
        tol = tol_for(relation, scale, vals[k]) * abs(fact) * 16 + 1e-9 * abs(vals[k] * fact)
        if not abs(got[k] - vals[k] * fact) <= tol:
            raise Mismatch("stored RPE value %d is %r, the definition on pair %s of the processed trajectories gives %r (%s)" % (
                k, float(got[k]), exp[k], float(vals[k] * fact), relation), observed="value", relation=relation)


def _mk_rpe_cli(base, relation, unit, dsel, all_pairs, from_ref, tol):
    c = dict(base)
    o = dict(base["opts"])
    o["relation"] = relation
    rel = pipeline.REL_CLI.get(relation, relation)
    if o.get("change_unit"):
        if rel in ("translation_part", "point_distance"):
            if o["change_unit"] not in pipeline.UNIT_FACT:
                o["change_unit"] = "cm"   # the base case's unit belonged to an angle relation
        elif rel == "rotation_angle_rad":
            o["change_unit"] = "deg"
        elif rel == "rotation_angle_deg":
            o["change_unit"] = "rad"
        else:
            o["change_unit"] = None
    o["delta_unit"] = unit
    o["delta"] = {"f": dsel["frames"], "m": dsel["m"], "r": dsel["r"], "d": math.degrees(dsel["r"])}[unit]
    o["all_pairs"] = all_pairs
    o["pairs_from_reference"] = from_ref
    o["delta_tol"] = tol
    c["opts"] = o
    return c


from vf.checks.c01 import st_cli as _st_ape_cli
def make_st_cli(unit=None, all_pairs=None, tol=None, plain=False):
    return st.builds(_mk_rpe_cli, _st_ape_cli(plain=plain),
                     st.sampled_from(sorted(pipeline.REL_CLI) + ["point_distance_error_ratio"]), unit or st.sampled_from(["f", "f", "r", "d", "m"]),
                     st.fixed_dictionaries({"frames": st.integers(1, 4), "m": st.sampled_from([0.05, 1.0, 30.0]), "r": st.sampled_from([0.05, 0.3, 1.0])}),
                     all_pairs or st.booleans(), st.booleans(), tol or st.sampled_from([0.1, 0.5, 0.1, 0.0, 1.5, 3.0]))


st_cli = make_st_cli()
SUBS.append(Sub("cli", sub_cli, st_cli, 800, 30000, nontrivial=lambda c: True, shards_quick=8))
