"""C02 — RPE values equal the definition over exactly the selected pose pairs."""
import math

import numpy as np
from hypothesis import strategies as st

from vf import gen, refmodel as rm, trajgen, snapshot
from vf.core import Mismatch, Sub, Skip
from vf.checks.c01 import REL, compare_values, tol_for

from evo.core import metrics, filters
from evo.core.metrics import Unit

PROPERTY = "C02"
RULE = ("core: Hypothesis pairs of equally long sequences (2-40 poses drawn, bulk to 3000), reference with stationary "
        "stretches, estimate with different geometry, x delta unit {frames,m,rad,deg} x delta (incl. realised values) x "
        "all_pairs x pairs_from_reference x 7 relations x tolerance; cli: evo_rpe in-process on generated files. "
        "Non-trivial = >= 1 pair and ref/est relative motions differ; distinct by SHA-1")
ASSUMPTIONS = ["pair lists come from evo's selectors (validated separately by C10) and are compared with RPE.delta_ids",
               "reference RPE definition in vf/refmodel.py; tolerances as C01"]

UNITS = {"f": Unit.frames, "m": Unit.meters, "r": Unit.radians, "d": Unit.degrees}


def _pairs(poses, case):
    return metrics.id_pairs_from_delta(poses, case["delta"], UNITS[case["unit"]], case["tol"], all_pairs=case["all_pairs"])


def _stationary(real, flags):
    """copy positions of the previous pose where flagged (zero reference distances)"""
    P = real.P.copy()
    for i in range(1, real.n):
        if flags[i % len(flags)]:
            P[i] = P[i - 1]
    return trajgen.Real(P, real.Rs(), real.mode, real.T)


def _delta(case, ref, est):
    """turn the drawn delta spec into a number; 'realised' picks a realised path length / angle"""
    d = case["delta_spec"]
    unit = case["unit"]
    if unit == "f":
        return int(d["frames"])
    src = ref if case["from_ref"] else est
    if unit == "m":
        acc = rm.accumulated(src.P)
        if d["kind"] == "realised" and len(acc) > 1:
            v = acc[1 + d["idx"] % (len(acc) - 1)]
            return float(v) if v > 0 else float(d["value"]) * src_extent(src)
        return float(d["value"]) * src_extent(src)
    # angles
    th = float(d["angle"])  # in (0, pi)
    return th if unit == "r" else math.degrees(th)


def src_extent(src):
    acc = rm.accumulated(src.P)
    return max(acc[-1], 1e-6)


def _setup(case):
    ref, est = trajgen.realise_pair(case)
    ref = _stationary(ref, case["still"])
    c = dict(case)
    c["delta"] = _delta(case, ref, est)
    return ref, est, c


def sub_definition(case):
    ref, est, c = _setup(case)
    scale = trajgen.coord_scale(ref, est)
    ro, eo = ref.build(case["ref"]["pre"]), est.build(case["est"]["pre"])
    src = ref if c["from_ref"] else est
    # the selectors get the very matrices evo derives for these objects (borderline >= decisions
    # must not depend on which quaternion->matrix routine rounded how)
    try:
        pairs = _pairs(src.build().poses_se3, c)
    except filters.FilterException:
        pairs = None
    other = est if c["from_ref"] else ref
    try:
        pairs_other = _pairs(other.build().poses_se3, c)
    except filters.FilterException:
        pairs_other = None
    relation = c["relation"]
    m = metrics.RPE(REL[relation], c["delta"], UNITS[c["unit"]], c["tol"], c["all_pairs"], c["from_ref"])
    sr, se = snapshot.snapshot(ro), snapshot.snapshot(eo)
    try:
        m.process_data((ro, eo))
    except filters.FilterException:
        if pairs is not None:
            raise Mismatch("RPE refused although the selector finds pairs on the %s" % ("reference" if c["from_ref"] else "estimate"),
                           observed="spurious_refusal")
        return "no_pairs"
    if pairs is None:
        raise Mismatch("RPE produced values although the selector finds no pairs on the %s" % ("reference" if c["from_ref"] else "estimate"),
                       observed="wrong_source" if pairs_other is not None else "missing_refusal")
    exp, kept = rm.rpe_values(ref.poses, est.poses, pairs, relation)
    exp_ids = [pairs[k][1] for k in kept]
    got_ids = [int(j) for j in m.delta_ids]
    if len(m.error) != len(got_ids):
        raise Mismatch("%d values but %d pair end indices" % (len(m.error), len(got_ids)), observed="count", relation=relation)
    if got_ids != exp_ids:
        tag = "ids"
        if pairs_other is not None and got_ids == [pairs_other[k][1] for k in rm.rpe_values(ref.poses, est.poses, pairs_other, relation)[1]]:
            tag = "wrong_source"
        raise Mismatch("delta_ids %s, selected pair ends are %s (pairs %s)" % (got_ids, exp_ids, pairs), observed=tag, relation=relation)
    # tolerance: E contains differences of relative translations -> scale by coordinates
    compare_values(m.error, exp, relation, scale * 4, "RPE.error") if relation != "point_distance_error_ratio" else _cmp_ratio(m.error, exp, ref, pairs, kept, scale)
    d = snapshot.diff(sr, ro) + snapshot.diff(se, eo)
    if d:
        raise Mismatch("RPE.process_data modified its inputs: %s" % d, observed="input_modified")
    label = "%s/%s%s" % (c["unit"], "all" if c["all_pairs"] else "cons", "/ref" if c["from_ref"] else "")
    if relation == "point_distance_error_ratio" and len(kept) != len(pairs):
        label += "/zero_ref_dist"
    if pairs_other != pairs:
        label += "/sel_differs"
    return label


def _cmp_ratio(got, exp, ref, pairs, kept, scale):
    got = np.asarray(got, dtype=float)
    if got.shape != np.asarray(exp).shape:
        raise Mismatch("ratio: %d values for %d pairs with non-zero reference distance" % (got.size, len(exp)), observed="count",
                       relation="point_distance_error_ratio")
    for k, (g, e) in enumerate(zip(got, exp)):
        i, j = pairs[kept[k]]
        dr = float(np.linalg.norm(ref.P[j] - ref.P[i]))
        tol = (64 * rm.EPS * scale * 4) / dr * 100 + 1e-9 * abs(e)
        if not abs(g - e) <= tol:
            raise Mismatch("ratio value %d is %r, definition gives %r" % (k, g, e), observed="value", relation="point_distance_error_ratio")


def sub_metamorphic(case):
    """S4: independent rigid motions of ref and est leave values and pairs unchanged; S5: est = T*ref -> zero."""
    ref, est, c = _setup(case)
    if c["unit"] != "f":
        # path/angle selection under a rigid motion can flip a borderline >= decision: use frames here,
        # the other units get their invariance through the definition check on moved data
        c["unit"] = "f"
        c["delta"] = 1 + int(case["delta_spec"]["frames"]) % max(1, ref.n - 1)
    M1 = rm.se3(gen.rot_matrix(case["M1"]["rot"]), np.asarray(case["M1"]["t"], dtype=float) * float(case["M1"]["mag"]))
    M2 = rm.se3(gen.rot_matrix(case["M2"]["rot"]), np.asarray(case["M2"]["t"], dtype=float) * float(case["M2"]["mag"]))
    ref2, est2 = ref.left(M1), est.left(M2)
    scale = 4 * max(trajgen.coord_scale(ref, est), trajgen.coord_scale(ref2, est2))
    relation = c["relation"]
    if relation == "point_distance_error_ratio":
        relation = "point_distance"

    def run(a, b):
        m = metrics.RPE(REL[relation], c["delta"], UNITS[c["unit"]], c["tol"], c["all_pairs"], c["from_ref"])
        m.process_data((a.build(), b.build()))
        return np.asarray(m.error), list(m.delta_ids)

    try:
        base, ids = run(ref, est)
    except filters.FilterException:
        return "no_pairs"
    moved, ids2 = run(ref2, est2)
    if ids2 != ids:
        raise Mismatch("pair ends changed under rigid motions: %s -> %s" % (ids, ids2), observed="ids", law="rigid_motion")
    compare_values(moved, base, relation, scale, "RPE after independent rigid motions of ref and est", law="rigid_motion")
    same, _ = run(ref, ref.left(M2))
    compare_values(same, np.zeros(len(same)), relation, scale, "RPE of a rigidly moved copy must vanish", law="same_motion")


def sub_unequal(case):
    ref, est, c = _setup(case)
    if ref.n < 3:
        return
    k = int(case["drop"]) % est.n
    short = trajgen.Real(np.delete(est.P, k, axis=0), [R for i, R in enumerate(est.Rs()) if i != k], est.mode)
    for a, b in ((ref, short), (short, ref)):
        m = metrics.RPE(REL[c["relation"]], 1, Unit.frames, 0.1, c["all_pairs"], c["from_ref"])
        try:
            m.process_data((a.build(), b.build()))
        except metrics.MetricsException:
            continue
        raise Mismatch("sequences of %d and %d poses were not refused" % (a.n, b.n), observed="not_refused")


def sub_bulk(case):
    n = int(case["n"])
    ref = trajgen.bulk_real(n, case["seed"], "se3", mag=float(case["mag"]), off=int(case["off"]))
    est = trajgen.bulk_real(n, case["seed"] + 7, "pq", mag=float(case["mag"]), off=int(case["off"]))
    est = trajgen.Real(ref.P + 0.05 * (est.P - est.P.mean(axis=0)), est.Rs(), "pq")
    relation = case["relation"]
    unit = case["unit"]
    delta = {"f": case["frames"], "m": float(case["mag"]) * 0.3, "r": 1.0, "d": 60.0}[unit]
    m = metrics.RPE(REL[relation], delta, UNITS[unit], 0.1, False, case["from_ref"])
    try:
        m.process_data((ref.build(), est.build()))
    except filters.FilterException:
        return "no_pairs"
    src = ref if case["from_ref"] else est
    pairs = metrics.id_pairs_from_delta(src.build().poses_se3, delta, UNITS[unit], 0.1, False)
    exp, kept = rm.rpe_values(ref.poses, est.poses, pairs, relation)
    if [int(j) for j in m.delta_ids] != [pairs[k][1] for k in kept]:
        raise Mismatch("bulk: delta_ids differ from selected pair ends", observed="ids")
    if relation == "point_distance_error_ratio":
        _cmp_ratio(m.error, exp, ref, pairs, kept, trajgen.coord_scale(ref, est))
    else:
        compare_values(m.error, exp, relation, 4 * trajgen.coord_scale(ref, est), "RPE.error (bulk n=%d)" % n)


st_delta = st.fixed_dictionaries({
    "frames": st.integers(1, 6), "kind": st.sampled_from(["realised", "free"]), "idx": st.integers(0, 40),
    "value": gen.fl(0.01, 1.2), "angle": st.one_of(gen.fl(1e-3, 3.1), st.sampled_from([math.pi / 8, math.pi / 2]))})
st_opts = st.fixed_dictionaries({
    "unit": st.sampled_from(["f", "f", "m", "r", "d"]), "delta_spec": st_delta, "all_pairs": st.booleans(),
    "from_ref": st.booleans(), "relation": st.sampled_from(rm.RELATIONS), "tol": st.sampled_from([0.0, 0.1, 0.5]),
    "still": st.lists(st.booleans(), min_size=1, max_size=6)})
st_M = st.fixed_dictionaries({"rot": gen.st_rotation_generic, "t": st.lists(gen.unit_f, min_size=3, max_size=3),
                              "mag": gen.log_uniform(-1, 3)})


def _merge(*ds):
    out = {}
    for d in ds:
        out.update(d)
    return out


st_case = st.tuples(trajgen.st_pair(2, 14, exp_lo=-2, exp_hi=5), st_opts).map(lambda t: _merge(*t))
st_meta = st.tuples(trajgen.st_pair(2, 10, exp_lo=-2, exp_hi=4), st_opts, st_M, st_M).map(
    lambda t: _merge(t[0], t[1], {"M1": t[2], "M2": t[3]}))
st_uneq = st.tuples(trajgen.st_pair(3, 8), st_opts, st.integers(0, 7)).map(lambda t: _merge(t[0], t[1], {"drop": t[2]}))
st_bulk = st.fixed_dictionaries({
    "n": st.sampled_from([300, 3000]), "seed": st.integers(0, 2 ** 32), "mag": st.sampled_from([1.0, 100.0]),
    "off": st.integers(0, 2), "relation": st.sampled_from(rm.RELATIONS), "unit": st.sampled_from(["f", "m", "r", "d"]),
    "frames": st.sampled_from([1, 7, 100]), "from_ref": st.booleans()})

SUBS = [
    Sub("definition", sub_definition, st_case, 2500, 80000, nontrivial=lambda c: True),
    Sub("metamorphic", sub_metamorphic, st_meta, 500, 20000, nontrivial=lambda c: True),
    Sub("unequal", sub_unequal, st_uneq, 200, 5000),
    Sub("bulk", sub_bulk, st_bulk, 12, 300, shards_quick=4),
]
