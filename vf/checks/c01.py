"""C01 — APE values equal the mathematical definition, pose by pose."""
import math

import numpy as np
from hypothesis import strategies as st

from vf import gen, refmodel as rm, trajgen, snapshot
from vf.core import Mismatch, Sub

from evo.core import metrics
from evo.core.metrics import PoseRelation

PROPERTY = "C01"
RULE = ("core: Hypothesis pairs of equally long pose sequences (1-12 poses drawn value by value, bulk to 1e4 "
        "from a Philox key), coordinates 1e-3..1e6 m with UTM-like offsets, estimates built as ref*exp(axis*theta) "
        "with theta from the special list next to 0 and pi, both storage modes and pre-read views, all 7 pose "
        "relations; cli: evo_ape driven in-process on generated TUM/KITTI/EuRoC files with option combinations, "
        "archive read back by an independent reader and compared with the reference pipeline. Non-trivial = >= 2 "
        "poses and an error above tolerance or a special relative angle (cli: >= 1 processing option); distinct by SHA-1"
        ' Round-3 additions: the same files evaluated 1-3 times in one process with different options; plot options (--serialize_plot, x dimension, colour-map percentile) in one case of six.')
ASSUMPTIONS = ["reference definitions in vf/refmodel.py (E = est^-1 ref, atan2 angle, Frobenius norms)",
               "tolerances: lengths 64 eps (max|coord|+1) + 1e-12 |v|; angles 1e-9 rad; Frobenius 1e-9 + length tolerance"]

REL = {
    "full_transformation": PoseRelation.full_transformation,
    "translation_part": PoseRelation.translation_part,
    "rotation_part": PoseRelation.rotation_part,
    "rotation_angle_rad": PoseRelation.rotation_angle_rad,
    "rotation_angle_deg": PoseRelation.rotation_angle_deg,
    "point_distance": PoseRelation.point_distance,
    "point_distance_error_ratio": PoseRelation.point_distance_error_ratio,
}
APE_RELS = [r for r in rm.RELATIONS if r != "point_distance_error_ratio"]
# the quantifier names relative angles within 1e-12 of 0 and of pi: an implementation that loses them (arccos of the trace:
# errors of 1e-8) does not compute "the geodesic angle" there; evo's own route is accurate to ~1e-15
ANGLE_TOL = 1e-9


def tol_for(relation, scale, value=0.0):
    ltol = 64 * rm.EPS * scale + 1e-12 * abs(value)
    if relation in ("translation_part", "point_distance"):
        return ltol
    if relation == "rotation_angle_rad":
        return ANGLE_TOL
    if relation == "rotation_angle_deg":
        return math.degrees(ANGLE_TOL)
    if relation == "rotation_part":
        return 1e-9
    if relation == "full_transformation":
        return 1e-9 + 4 * ltol
    if relation == "point_distance_error_ratio":
        return None
    raise ValueError(relation)


def compare_values(got, exp, relation, scale, what, **tags):
    got = np.asarray(got, dtype=float)
    exp = np.asarray(exp, dtype=float)
    if got.shape != exp.shape:
        raise Mismatch("%s: %d values for %d expected" % (what, got.size, exp.size), observed="count", relation=relation, **tags)
    for k in range(len(exp)):
        tol = tol_for(relation, scale, exp[k])
        if not (abs(got[k] - exp[k]) <= tol):
            raise Mismatch("%s [%s]: value %d is %r, definition gives %r (tol %.3e)" % (what, relation, k, float(got[k]), float(exp[k]), tol),
                           observed="value", relation=relation, **tags)


def ape_error(ref_obj, est_obj, relation):
    m = metrics.APE(REL[relation])
    m.process_data((ref_obj, est_obj))
    return m


def _core(ref, est, pre_ref=(), pre_est=(), check_meta=True):
    scale = trajgen.coord_scale(ref, est)
    for relation in APE_RELS:
        ro = ref.build(pre_ref)
        eo = est.build(pre_est)
        sr, se = snapshot.snapshot(ro), snapshot.snapshot(eo)
        m = ape_error(ro, eo, relation)
        exp = rm.ape_values(ref.poses, est.poses, relation)
        compare_values(m.error, exp, relation, scale, "APE.error")
        if len(m.E) != ref.n:
            raise Mismatch("APE.E has %d entries for %d poses" % (len(m.E), ref.n), observed="count", relation=relation)
        d = snapshot.diff(sr, ro) + snapshot.diff(se, eo)
        if d:
            raise Mismatch("APE.process_data modified its inputs: %s" % d, observed="input_modified")
        if relation in ("rotation_angle_rad", "rotation_angle_deg"):
            hi = math.pi if relation.endswith("rad") else 180.0
            if np.any(np.asarray(m.error) < 0) or np.any(np.asarray(m.error) > hi * (1 + 1e-12)):
                raise Mismatch("angle outside [0, pi]", observed="range", relation=relation)
    # S6: ratio relation refused
    try:
        m = ape_error(ref.build(), est.build(), "point_distance_error_ratio")
    except metrics.MetricsException:
        pass
    else:
        raise Mismatch("APE with point_distance_error_ratio was not refused", observed="not_refused")


def sub_definition(case):
    ref, est = trajgen.realise_pair(case)
    _core(ref, est, case["ref"]["pre"], case["est"]["pre"])
    return "n=1" if ref.n == 1 else ("rel" if "rel" in case["est"] else "free")


def sub_metamorphic(case):
    ref, est = trajgen.realise_pair(case)
    scale = trajgen.coord_scale(ref, est)
    M = rm.se3(gen.rot_matrix(case["M"]["rot"]), np.asarray(case["M"]["t"], dtype=float) * float(case["M"]["mag"]))
    ref2, est2 = ref.left(M), est.left(M)
    scale2 = max(scale, trajgen.coord_scale(ref2, est2))
    for relation in APE_RELS:
        base = np.asarray(ape_error(ref.build(), est.build(), relation).error)
        # S3 coincide -> zero
        zero = np.asarray(ape_error(ref.build(), ref.build(case["est"]["pre"]), relation).error)
        compare_values(zero, np.zeros(ref.n), relation, scale, "APE(ref, ref) must vanish", law="coincide")
        # S4 same rigid motion on both
        moved = np.asarray(ape_error(ref2.build(), est2.build(), relation).error)
        compare_values(moved, base, relation, 4 * scale2, "APE after a common rigid motion", law="rigid_motion")
        # S5 swap
        swapped = np.asarray(ape_error(est.build(), ref.build(), relation).error)
        compare_values(swapped, base, relation, scale, "APE with reference and estimate swapped", law="swap")


def sub_unequal(case):
    ref, est = trajgen.realise_pair(case)
    k = int(case["drop"]) % ref.n
    if ref.n < 2:
        return
    # estimate (or reference) one pose shorter
    short = trajgen.Real(np.delete(est.P, k, axis=0), [R for i, R in enumerate(est.Rs()) if i != k], est.mode)
    for relation in rm.RELATIONS:
        for a, b in ((ref, short), (short, ref)):
            m = metrics.APE(REL[relation])
            try:
                m.process_data((a.build(), b.build()))
            except metrics.MetricsException:
                continue
            raise Mismatch("sequences of %d and %d poses were not refused (%d values returned)" % (a.n, b.n, len(m.error)),
                           observed="not_refused", relation=relation)


def sub_bulk(case):
    n = int(case["n"])
    ref = trajgen.bulk_real(n, case["seed"], case["mode1"], mag=float(case["mag"]), off=int(case["off"]), t0=1.5e9)
    est0 = trajgen.bulk_real(n, case["seed"] + 1, case["mode2"], mag=float(case["mag"]), off=int(case["off"]))
    # estimate near the reference with small noise and special relative rotations
    rng = gen.bulk_rng(case["seed"] + 2)
    thetas = rng.choice(np.array(gen.SPECIAL_THETAS), size=n)
    axes = rng.standard_normal((n, 3))
    axes /= np.linalg.norm(axes, axis=1)[:, None]
    Rs = [R0 @ rm.rodrigues(a * th) for R0, a, th in zip(ref.Rs(), axes, thetas)]
    P = ref.P + float(case["noise"]) * (est0.P - est0.P.mean(axis=0))
    est = trajgen.Real(P, Rs, case["mode2"])
    scale = trajgen.coord_scale(ref, est)
    relation = case["relation"]
    m = ape_error(ref.build(timed=False), est.build(), relation)
    exp = rm.ape_values(ref.poses, est.poses, relation)
    compare_values(m.error, exp, relation, scale, "APE.error (bulk n=%d)" % n)


def _nt_pair(case):
    return case["ref"]["n"] >= 2


st_M = st.fixed_dictionaries({"rot": gen.st_rotation_generic, "t": st.lists(gen.unit_f, min_size=3, max_size=3),
                              "mag": gen.log_uniform(-1, 4)})
st_pair = trajgen.st_pair(1, 12)
st_meta = st.tuples(trajgen.st_pair(1, 8), st_M).map(lambda t: dict(t[0], M=t[1]))
st_uneq = st.tuples(trajgen.st_pair(2, 8), st.integers(0, 7)).map(lambda t: dict(t[0], drop=t[1]))
st_bulk = st.fixed_dictionaries({
    "n": st.sampled_from([100, 1000, 10000]), "seed": st.integers(0, 2 ** 32), "mode1": st.sampled_from(["pq", "se3"]),
    "mode2": st.sampled_from(["pq", "se3"]), "mag": st.sampled_from([1e-3, 1.0, 1e3, 1e6]), "off": st.integers(0, 3),
    "noise": st.sampled_from([0.0, 1e-6, 1e-2, 1.0]), "relation": st.sampled_from(APE_RELS)})

SUBS = [
    Sub("definition", sub_definition, st_pair, 1500, 60000, nontrivial=_nt_pair),
    Sub("metamorphic", sub_metamorphic, st_meta, 500, 20000, nontrivial=_nt_pair),
    Sub("unequal", sub_unequal, st_uneq, 300, 10000, nontrivial=lambda c: True),
    Sub("bulk", sub_bulk, st_bulk, 16, 400, nontrivial=lambda c: True, shards_quick=4),
]


# ---- CLI level: evo_ape on generated files (S7 / S8) -------------------------------------------------

import os
import tempfile

from vf import cli, pipeline
from vf.core import Skip


def _find(arch, path):
    for k, v in arch["trajs"].items():
        if k == path or k.endswith(os.path.basename(path)):
            return v
    raise Mismatch("archive holds no trajectory for %s (members %s)" % (path, sorted(arch["trajs"])), observed="archive_members")


def prepare_cli_case(case):
    d = tempfile.mkdtemp(prefix="cli_", dir=os.getcwd())
    fmt = case["fmt"]
    c = dict(case)
    if fmt == "kitti":
        c["data"] = dict(case["data"], keep=1.0, jitter=0.0, est_dense=False)
        c["opts"] = dict(case["opts"], t_offset=0.0)
    ref, est = pipeline.make_inputs(c)
    files = pipeline.write_inputs(d, fmt, ref, est)
    if fmt == "euroc":
        # the file stores integer nanoseconds: the loaded stamp is float(ns)/1e9 (C07 decides that conversion)
        ns = [int(round(t * 1e9)) for t in ref[0]]
        ref = (np.array([float(v) for v in ns]) / 1e9, ref[1], ref[2])
    if fmt == "bag":
        # the bag stores sec/nanosec: what evo's reader returns is the data the tool works on (C06 decides that round trip)
        from rosbags.rosbag1 import Reader
        from evo.tools import file_interface
        rd = Reader(files[1])
        rd.open()
        try:
            lr, le = file_interface.read_bag_trajectory(rd, files[2]), file_interface.read_bag_trajectory(rd, files[3])
        finally:
            rd.close()
        ref = (np.asarray(lr.timestamps), np.asarray(lr.positions_xyz), np.asarray(lr.orientations_quat_wxyz))
        est = (np.asarray(le.timestamps), np.asarray(le.positions_xyz), np.asarray(le.orientations_quat_wxyz))
        if np.any(np.diff(est[0]) <= 0) or np.any(np.diff(ref[0]) <= 0):
            raise Skip("non-increasing stamps after the bag round trip")
    pl = c["opts"].get("plot") or {}
    cfg = pipeline.write_cfg(d, {"plot_trajectory_length_unit": pl["len_unit"]} if pl.get("len_unit") else None)
    return c, d, ref, est, files, cfg


def run_cli_case(case, app="ape", extra_argv=(), prepared=None, tag=""):
    c, d, ref, est, files, cfg = prepared or prepare_cli_case(case)
    if prepared is not None:
        # a further run on the same files (same process): only the options differ; the files were written for the
        # first run's time offset, so that stays
        c = dict(c, opts=dict(case["opts"], t_offset=c["opts"].get("t_offset", 0.0)))
        if c["fmt"] == "kitti":
            c["opts"]["t_offset"] = 0.0
        if c["opts"].get("plot"):
            # the -c file (written once for these files) fixes the plot length unit of every run
            first_unit = ((prepared[0]["opts"].get("plot") or {}).get("len_unit"))
            c["opts"]["plot"] = dict(c["opts"]["plot"], len_unit=first_unit)
    out_zip = os.path.join(d, "out%s.zip" % tag)
    argv = pipeline.base_argv(c, files, out_zip, cfg) + list(extra_argv)
    out = cli.run(app, argv, cwd=d)
    return c, d, ref, est, files, out, out_zip


def sub_cli(case):
    prepared = prepare_cli_case(case)
    label = _check_cli_run(run_cli_case(case, prepared=prepared, tag="0"), "")
    for k, again in enumerate(case.get("again") or []):
        # the same files evaluated again in the same process with other options: every run is judged on its own
        c2 = {"fmt": case["fmt"], "data": case["data"], "opts": again}
        _check_cli_run(run_cli_case(c2, prepared=prepared, tag=str(k + 1)), "run %d on the same files: " % (k + 2))
        label = str(label) + "+again"
    return label


def _check_cli_run(run, prefix):
    try:
        return _check_cli_run_inner(run)
    except Mismatch as m:
        if prefix:
            m.msg = prefix + m.msg
            m.args = (m.msg,) + tuple(m.args[1:])
        raise


def _check_cli_run_inner(run):
    c, d, ref, est, files, out, out_zip = run
    o = c["opts"]
    fmt = c["fmt"]
    exp = pipeline.process_reference(c, fmt, ref, est)
    if out.exit_code != 0:
        if exp == "refused":
            return "refused"
        n = len(exp[0])
        used = n if o.get("n_to_align", -1) == -1 else min(o["n_to_align"], n)
        if (o.get("align") or o.get("correct_scale")):
            sv, _ = rm.covariance_singular_values(est[1][exp[1]][:used].T, ref[1][exp[0]][:used].T)
            if used < 3 or sv[1] <= max(1e-10, 1e-11 * sv[0]):
                return "refused_alignment"
        raise Mismatch("evo_ape failed (%s) although the documented chain keeps %d pairs; argv options %s" % (out.refused, n, {k: v for k, v in o.items() if v}),
                       observed="cli_failed")
    if exp == "refused":
        raise Mismatch("evo_ape produced a result although the documented processing chain leaves no pose pairs / must refuse; options %s" % (
            {k: v for k, v in o.items() if v},), observed="missing_refusal")
    if not os.path.exists(out_zip):
        raise Mismatch("evo_ape wrote no result archive", observed="no_archive")
    arch = cli.read_archive(out_zip)
    arch["trajs"] = {"ref": _find(arch, files[2] if fmt == "bag" else files[1]), "est": _find(arch, files[3] if fmt == "bag" else files[2])}
    rsel, esel = exp
    sref, sest = pipeline.check_alignment_stage(c, arch, ref, est, rsel, esel, "ape")
    # S7: stored values are the definition applied to the stored processed pairs
    relation = pipeline.REL_CLI[o["relation"]]
    vals = rm.ape_values(sref["poses"], sest["poses"], relation)
    unit = o.get("change_unit")
    fact = 1.0
    if unit:
        if relation in ("translation_part", "point_distance") and unit in pipeline.UNIT_FACT:
            fact = pipeline.UNIT_FACT[unit]
        elif relation == "rotation_angle_rad" and unit == "deg":
            fact = 180.0 / math.pi
        elif relation == "rotation_angle_deg" and unit == "rad":
            fact = math.pi / 180.0
    scale = max(float(np.abs(sref["P"]).max()), float(np.abs(sest["P"]).max())) + 1.0
    got = np.asarray(arch["arrays"]["error_array"], dtype=float)
    if got.shape != vals.shape:
        raise Mismatch("archive holds %d error values for %d stored pose pairs" % (got.size, vals.size), observed="count", relation=relation)
    for k in range(len(vals)):
        tol = tol_for(relation, scale, vals[k]) * abs(fact) * 4 + 1e-12 * abs(vals[k] * fact)
        if not abs(got[k] - vals[k] * fact) <= tol:
            raise Mismatch("stored error value %d is %r, definition on the stored pair gives %r (%s, unit factor %r)" % (k, float(got[k]), float(vals[k] * fact), relation, fact),
                           observed="value", relation=relation)
    if sest["T"] is not None:
        if not np.array_equal(np.asarray(arch["arrays"]["timestamps"]), sest["T"]):
            raise Mismatch("timestamps array of the archive is not the stored estimate's stamps", observed="timestamps")
    if CHECK_COMPANIONS[0] and sest["T"] is not None:
        # C12's clause, judged when C12 drives this checker: every companion array has one entry per value and refers to
        # the pose the value belongs to (seconds / path length from the start of the STORED trajectories, in metres)
        n = len(got)
        for key, exp_arr in (("seconds_from_start", sest["T"] - sest["T"][0]),
                             ("distances_from_start", np.asarray(rm.accumulated(sref["P"]))), ("distances", np.asarray(rm.accumulated(sest["P"])))):
            if key not in arch["arrays"]:
                raise Mismatch("archive lacks the companion array %s" % key, observed="companion_missing", key=key)
            a = np.asarray(arch["arrays"][key], dtype=float)
            if a.shape != (n,):
                raise Mismatch("companion array %s has %s entries for %d error values" % (key, a.shape, n), observed="companion_length", key=key)
            tolc = 1e-9 * (float(np.abs(exp_arr).max()) if n else 0.0) + 1e-12
            if float(np.abs(a - exp_arr).max(initial=0.0)) > tolc:
                k = int(np.argmax(np.abs(a - exp_arr)))
                raise Mismatch("companion array %s[%d] = %r, the stored trajectories give %r" % (key, k, float(a[k]), float(exp_arr[k])),
                               observed="companion_value", key=key)
    st_ref = rm.statistics(got)
    for k, v in st_ref.items():
        if not abs(float(arch["stats"][k]) - v) <= 1e-9 * max(abs(v), abs(float(arch["stats"][k]))) + 1e-300 + (1e-9 * abs(st_ref["mean"]) if k == "std" else 0):
            raise Mismatch("stats.json %s = %r, values give %r" % (k, arch["stats"][k], v), observed="stats")
    active = [k for k in ("align", "correct_scale", "align_origin", "downsample", "motion_filter", "t_start", "t_end", "project", "change_unit") if o.get(k)]
    return "cli/%s/%d_opts" % (fmt, min(len(active), 3))


CHECK_COMPANIONS = [False]


def sub_cli_with_companions(case):
    CHECK_COMPANIONS[0] = True
    try:
        return sub_cli(case)
    finally:
        CHECK_COMPANIONS[0] = False


def _mk_cli_case(fmt, data, relation, align_mode, correct_scale, n_to_align, downsample, mf, tmd, toff, crop, project, unit, plot=None):
    opts = {"plot": plot, "relation": relation, "align": align_mode == "align", "align_origin": align_mode == "origin", "correct_scale": correct_scale,
            "n_to_align": n_to_align if (align_mode == "align" or correct_scale) else -1, "downsample": downsample, "motion_filter": mf,
            "t_max_diff": tmd, "t_offset": toff, "project": project, "change_unit": None}
    n = data["n"]
    t0, dt = data["t0"], data["dt"]
    if isinstance(downsample, str):
        # relative to the reference's pose count: reference not reduced, a denser estimate is
        opts["downsample"] = n + (2 if downsample == "n+2" else 0)
    if crop is not None and fmt != "kitti":
        a, b = sorted((crop[0] % n, crop[1] % n))
        # bounds half-way between stamps, farther than t_max_diff + |offset| + jitter from every stamp of both files
        opts["t_start"] = t0 + (a - 0.5) * dt if crop[2] else None
        opts["t_end"] = t0 + (b + 0.5) * dt if crop[3] else None
        if opts["t_start"] is not None and opts["t_start"] <= 0:
            opts["t_start"] = None
        # crop bounds live on the reference's time line (evo crops the reference, association then applies the offset):
        # the reading the property's own mechanism list gives (load -> filter -> crop -> associate)
    if unit:
        rel = pipeline.REL_CLI[relation]
        if rel in ("translation_part", "point_distance"):
            opts["change_unit"] = unit
        elif rel == "rotation_angle_rad":
            opts["change_unit"] = "deg"
        elif rel == "rotation_angle_deg":
            opts["change_unit"] = "rad"
    return {"fmt": fmt, "data": data, "opts": opts}


st_data = st.fixed_dictionaries({
    "n": st.integers(4, 40), "t0": st.sampled_from([10.0, 1.5e9, 1403636579.5]), "dt": st.sampled_from([0.1, 0.05, 1.0]),
    "seed": st.integers(0, 2 ** 32), "step": st.sampled_from([0.01, 0.5, 20.0]), "off": st.integers(0, 2), "still": st.sampled_from([0.0, 0.3]),
    "axis": st.lists(gen.unit_f, min_size=3, max_size=3), "keep": st.sampled_from([1.0, 0.8, 0.5]), "jitter": st.sampled_from([0.0, 0.001, 0.004]),
    "scale": st.sampled_from([1.0, 1.0, 0.5, 7.25]), "noise": st.sampled_from([0.0, 0.01, 0.5]), "est_dense": st.sampled_from([False, False, True])})
_st_cli_opts = (
    st.sampled_from(sorted(pipeline.REL_CLI)),
    st.sampled_from(["none", "align", "origin"]), st.booleans(), st.sampled_from([-1, -1, 3, 5, 10]), st.sampled_from([None, None, 3, 10, 1000, "n", "n+2"]),
    st.sampled_from([None, None, [0.1, 5.0], [1.0, 0.5], [0.0, 0.0]]), st.sampled_from([0.01, 0.01, 0.005, 0.02, 0.01, 0.01, 0.005, 0.0]),
    st.sampled_from([0.0, 0.0, 0.5, -2.25]), st.one_of(st.none(), st.tuples(st.integers(0, 40), st.integers(0, 40), st.booleans(), st.booleans())),
    st.sampled_from([None, None, "xy", "xz", "yz"]), st.sampled_from([None, None, "mm", "cm", "km"]),
    st.one_of(st.none(), st.none(), st.none(), st.none(), st.none(), st.fixed_dictionaries({
        "x": st.sampled_from(["index", "seconds", "distances"]), "mode": st.sampled_from(["xy", "xyz", "zx"]),
        "pct": st.sampled_from([None, 50, 90, 100]), "cmin": st.sampled_from([None, 0.0]), "len_unit": st.sampled_from([None, None, "km", "mm"])})))


@st.composite
def st_cli(draw, force_plot=False, force_crop=False, plain=False):
    fmt = draw(st.sampled_from(["tum", "tum", "euroc", "kitti", "tum", "euroc", "kitti", "bag"]))
    data = draw(st_data)
    case = _mk_cli_case(fmt, data, *[draw(x) for x in _st_cli_opts])
    if plain:
        # no pre-processing options: for checks that look at one other option group of the tool
        case["opts"].update(align=False, align_origin=False, correct_scale=False, n_to_align=-1, downsample=None, motion_filter=None,
                            t_max_diff=0.01, t_start=None, t_end=None, project=None, plot=None)
    if force_plot and not case["opts"].get("plot"):
        case["opts"]["plot"] = {"x": draw(st.sampled_from(["index", "seconds", "distances"])), "mode": draw(st.sampled_from(["xy", "xyz"])),
                                "pct": draw(st.sampled_from([None, 50, 90])), "cmin": None, "len_unit": draw(st.sampled_from([None, "km", "mm"]))}
    if force_crop and fmt != "kitti" and case["opts"].get("t_start") is None and case["opts"].get("t_end") is None:
        n, t0, dt = data["n"], data["t0"], data["dt"]
        a = draw(st.integers(1, max(1, n - 2)))
        if draw(st.booleans()):
            case["opts"]["t_start"] = t0 + (a - 0.5) * dt
        else:
            case["opts"]["t_end"] = t0 + (a + 0.5) * dt
    # one case in four evaluates the same files again (same process) with other options
    k = draw(st.sampled_from([0, 0, 0, 1, 2])) if draw(st.booleans()) else 0
    if k:
        case["again"] = [_mk_cli_case(fmt, data, *[draw(x) for x in _st_cli_opts])["opts"] for _ in range(k)]
    return case


SUBS.append(Sub("cli", sub_cli, st_cli(), 800, 30000, nontrivial=lambda c: any(c["opts"].get(k) for k in (
    "align", "correct_scale", "align_origin", "downsample", "motion_filter", "t_start", "t_end", "project", "change_unit", "t_offset", "plot")), shards_quick=8))
