"""C01 — APE values equal the mathematical definition, pose by pose."""
import math

import numpy as np
from hypothesis import strategies as st

from vf import gen, refmodel as rm, trajgen, snapshot
from vf.core import Mismatch, Sub

from evo.core import metrics
from evo.core.metrics import PoseRelation

PROPERTY = "C01"
RULE = ("core: Hypothesis pairs of equally long pose sequences (1-12 poses drawn value by value, bulk to 1e4 "
        "from a Philox key), coordinates 1e-3..1e6 m with UTM-like offsets, estimates built as ref*exp(axis*theta) "
        "with theta from the special list next to 0 and pi, both storage modes and pre-read views, all 7 pose "
        "relations; cli: evo_ape driven in-process on generated TUM/KITTI/EuRoC files with option combinations, "
        "archive read back by an independent reader and compared with the reference pipeline. Non-trivial = >= 2 "
        "poses and an error above tolerance or a special relative angle (cli: >= 1 processing option); distinct by SHA-1")
ASSUMPTIONS = ["reference definitions in vf/refmodel.py (E = est^-1 ref, atan2 angle, Frobenius norms)",
               "tolerances: lengths 64 eps (max|coord|+1) + 1e-12 |v|; angles 1e-7 rad; Frobenius 1e-9 + length tolerance"]

REL = {
    "full_transformation": PoseRelation.full_transformation,
    "translation_part": PoseRelation.translation_part,
    "rotation_part": PoseRelation.rotation_part,
    "rotation_angle_rad": PoseRelation.rotation_angle_rad,
    "rotation_angle_deg": PoseRelation.rotation_angle_deg,
    "point_distance": PoseRelation.point_distance,
    "point_distance_error_ratio": PoseRelation.point_distance_error_ratio,
}
APE_RELS = [r for r in rm.RELATIONS if r != "point_distance_error_ratio"]


def tol_for(relation, scale, value=0.0):
    ltol = 64 * rm.EPS * scale + 1e-12 * abs(value)
    if relation in ("translation_part", "point_distance"):
        return ltol
    if relation == "rotation_angle_rad":
        return 1e-7
    if relation == "rotation_angle_deg":
        return math.degrees(1e-7)
    if relation == "rotation_part":
        return 1e-9
    if relation == "full_transformation":
        return 1e-9 + 4 * ltol
    if relation == "point_distance_error_ratio":
        return None
    raise ValueError(relation)


def compare_values(got, exp, relation, scale, what, **tags):
    got = np.asarray(got, dtype=float)
    exp = np.asarray(exp, dtype=float)
    if got.shape != exp.shape:
        raise Mismatch("%s: %d values for %d expected" % (what, got.size, exp.size), observed="count", relation=relation, **tags)
    for k in range(len(exp)):
        tol = tol_for(relation, scale, exp[k])
        if not (abs(got[k] - exp[k]) <= tol):
            raise Mismatch("%s [%s]: value %d is %r, definition gives %r (tol %.3e)" % (what, relation, k, float(got[k]), float(exp[k]), tol),
                           observed="value", relation=relation, **tags)


def ape_error(ref_obj, est_obj, relation):
    m = metrics.APE(REL[relation])
    m.process_data((ref_obj, est_obj))
    return m


def _core(ref, est, pre_ref=(), pre_est=(), check_meta=True):
    scale = trajgen.coord_scale(ref, est)
    for relation in APE_RELS:
        ro = ref.build(pre_ref)
        eo = est.build(pre_est)
        sr, se = snapshot.snapshot(ro), snapshot.snapshot(eo)
        m = ape_error(ro, eo, relation)
        exp = rm.ape_values(ref.poses, est.poses, relation)
        compare_values(m.error, exp, relation, scale, "APE.error")
        if len(m.E) != ref.n:
            raise Mismatch("APE.E has %d entries for %d poses" % (len(m.E), ref.n), observed="count", relation=relation)
        d = snapshot.diff(sr, ro) + snapshot.diff(se, eo)
        if d:
            raise Mismatch("APE.process_data modified its inputs: %s" % d, observed="input_modified")
        if relation in ("rotation_angle_rad", "rotation_angle_deg"):
            hi = math.pi if relation.endswith("rad") else 180.0
            if np.any(np.asarray(m.error) < 0) or np.any(np.asarray(m.error) > hi * (1 + 1e-12)):
                raise Mismatch("angle outside [0, pi]", observed="range", relation=relation)
    # S6: ratio relation refused
    try:
        m = ape_error(ref.build(), est.build(), "point_distance_error_ratio")
    except metrics.MetricsException:
        pass
    else:
        raise Mismatch("APE with point_distance_error_ratio was not refused", observed="not_refused")


def sub_definition(case):
    ref, est = trajgen.realise_pair(case)
    _core(ref, est, case["ref"]["pre"], case["est"]["pre"])
    return "n=1" if ref.n == 1 else ("rel" if "rel" in case["est"] else "free")


def sub_metamorphic(case):
    ref, est = trajgen.realise_pair(case)
    scale = trajgen.coord_scale(ref, est)
    M = rm.se3(gen.rot_matrix(case["M"]["rot"]), np.asarray(case["M"]["t"], dtype=float) * float(case["M"]["mag"]))
    ref2, est2 = ref.left(M), est.left(M)
    scale2 = max(scale, trajgen.coord_scale(ref2, est2))
    for relation in APE_RELS:
        base = np.asarray(ape_error(ref.build(), est.build(), relation).error)
        # S3 coincide -> zero
        zero = np.asarray(ape_error(ref.build(), ref.build(case["est"]["pre"]), relation).error)
        compare_values(zero, np.zeros(ref.n), relation, scale, "APE(ref, ref) must vanish", law="coincide")
        # S4 same rigid motion on both
        moved = np.asarray(ape_error(ref2.build(), est2.build(), relation).error)
        compare_values(moved, base, relation, 4 * scale2, "APE after a common rigid motion", law="rigid_motion")
        # S5 swap
        swapped = np.asarray(ape_error(est.build(), ref.build(), relation).error)
        compare_values(swapped, base, relation, scale, "APE with reference and estimate swapped", law="swap")


def sub_unequal(case):
    ref, est = trajgen.realise_pair(case)
    k = int(case["drop"]) % ref.n
    if ref.n < 2:
        return
    # estimate (or reference) one pose shorter
    short = trajgen.Real(np.delete(est.P, k, axis=0), [R for i, R in enumerate(est.Rs()) if i != k], est.mode)
    for relation in rm.RELATIONS:
        for a, b in ((ref, short), (short, ref)):
            m = metrics.APE(REL[relation])
            try:
                m.process_data((a.build(), b.build()))
            except metrics.MetricsException:
                continue
            raise Mismatch("sequences of %d and %d poses were not refused (%d values returned)" % (a.n, b.n, len(m.error)),
                           observed="not_refused", relation=relation)


def sub_bulk(case):
    n = int(case["n"])
    ref = trajgen.bulk_real(n, case["seed"], case["mode1"], mag=float(case["mag"]), off=int(case["off"]), t0=1.5e9)
    est0 = trajgen.bulk_real(n, case["seed"] + 1, case["mode2"], mag=float(case["mag"]), off=int(case["off"]))
    # estimate near the reference with small noise and special relative rotations
    rng = gen.bulk_rng(case["seed"] + 2)
    thetas = rng.choice(np.array(gen.SPECIAL_THETAS), size=n)
    axes = rng.standard_normal((n, 3))
    axes /= np.linalg.norm(axes, axis=1)[:, None]
    Rs = [R0 @ rm.rodrigues(a * th) for R0, a, th in zip(ref.Rs(), axes, thetas)]
    P = ref.P + float(case["noise"]) * (est0.P - est0.P.mean(axis=0))
    est = trajgen.Real(P, Rs, case["mode2"])
    scale = trajgen.coord_scale(ref, est)
    relation = case["relation"]
    m = ape_error(ref.build(timed=False), est.build(), relation)
    exp = rm.ape_values(ref.poses, est.poses, relation)
    compare_values(m.error, exp, relation, scale, "APE.error (bulk n=%d)" % n)


def _nt_pair(case):
    return case["ref"]["n"] >= 2


st_M = st.fixed_dictionaries({"rot": gen.st_rotation_generic, "t": st.lists(gen.unit_f, min_size=3, max_size=3),
                              "mag": gen.log_uniform(-1, 4)})
st_pair = trajgen.st_pair(1, 12)
st_meta = st.tuples(trajgen.st_pair(1, 8), st_M).map(lambda t: dict(t[0], M=t[1]))
st_uneq = st.tuples(trajgen.st_pair(2, 8), st.integers(0, 7)).map(lambda t: dict(t[0], drop=t[1]))
st_bulk = st.fixed_dictionaries({
    "n": st.sampled_from([100, 1000, 10000]), "seed": st.integers(0, 2 ** 32), "mode1": st.sampled_from(["pq", "se3"]),
    "mode2": st.sampled_from(["pq", "se3"]), "mag": st.sampled_from([1e-3, 1.0, 1e3, 1e6]), "off": st.integers(0, 3),
    "noise": st.sampled_from([0.0, 1e-6, 1e-2, 1.0]), "relation": st.sampled_from(APE_RELS)})

SUBS = [
    Sub("definition", sub_definition, st_pair, 1500, 60000, nontrivial=_nt_pair),
    Sub("metamorphic", sub_metamorphic, st_meta, 500, 20000, nontrivial=_nt_pair),
    Sub("unequal", sub_unequal, st_uneq, 300, 10000, nontrivial=lambda c: True),
    Sub("bulk", sub_bulk, st_bulk, 16, 400, nontrivial=lambda c: True, shards_quick=4),
]
