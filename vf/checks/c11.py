"""C11 — Sub-sampling, cropping, splitting and merging select exactly the specified poses."""
import itertools
import math

import numpy as np
from hypothesis import strategies as st

from vf import gen, refmodel as rm, pairsel
from vf.core import Mismatch, Sub, Report
from vf.pairsel import Bad

from evo.core import filters, trajectory
from evo.core.trajectory import PosePath3D, PoseTrajectory3D, TrajectoryException

PROPERTY = "C11"
RULE = ("tagged trajectories (pose k carries x = k, heading k*delta, stamp t0 + f(k)); down-sampling: exhaustive over counts "
        "n <= 400 (quick) / 2500 (thorough) x every target 1..n+2 (+ refused targets < 1); motion filter: exact integer-step / "
        "pi/8-heading grids and random geometry with stationary stretches, rad/deg, via trajectory and filters; time crop with "
        "bounds {None, inside, on a stamp, outside, empty, reversed}; three splitters with thresholds incl. 0 and realised steps; "
        "merge of 1-6 interleaved/nested/tied trajectories. Non-trivial = output strictly smaller than input (or >= 2 parts / "
        ">= 2 merged inputs); enumerated cases are distinct by construction, drawn ones by SHA-1"
        ' Round-3 additions: merge inputs with pre-read views, merged matrix view checked; evo_traj --downsample/--motion_filter/--merge with and without --ref (cli_traj).')
ASSUMPTIONS = ["down-sample spacing bound |id_k - k(n-1)/(N-1)| <= 1 (linspace floor)",
               "distance/speed/angle threshold decisions inside a 1e-9 relative margin accept either outcome; integer grids are exact"]


def tagged(n, mode, timed=True, t0=0.0, dts=None, P=None, yaw=None):
    k = np.arange(n, dtype=float)
    if P is None:
        P = np.column_stack([k, 0.25 * k * k, -0.5 * k])
    P = np.asarray(P, dtype=float)
    if yaw is None:
        yaw = 0.001 * k
    yaw = np.asarray(yaw, dtype=float)
    Q = np.column_stack([np.cos(yaw / 2), np.zeros(n), np.zeros(n), np.sin(yaw / 2)])
    if dts is None:
        T = t0 + k
    else:
        T = t0 + np.concatenate([[0.0], np.cumsum(np.asarray(dts, dtype=float))])[:n]
    kw = {}
    if mode == "pq":
        kw = dict(positions_xyz=P.copy(), orientations_quat_wxyz=Q.copy())
    else:
        kw = dict(poses_se3=rm.poses_from(P, Q))
    obj = PoseTrajectory3D(timestamps=T.copy(), **kw) if timed else PosePath3D(**kw)
    return obj, P, Q, T


def ids_from_tags(obj, P):
    """which input poses survive, identified by position rows (unique by construction)"""
    lut = {tuple(r): i for i, r in enumerate(np.asarray(P).tolist())}
    out = []
    for r in np.asarray(obj.positions_xyz).tolist():
        key = tuple(r)
        if key not in lut:
            raise Mismatch("output position %s is not an input position" % (r,), clause="tag")
        out.append(lut[key])
    return out


def check_together(obj, ids, P, Q, T, mode, what):
    """position, orientation and timestamp of each kept pose stay together"""
    ids = list(ids)
    if obj.num_poses != len(ids):
        raise Mismatch("%s: num_poses %d but %d positions" % (what, obj.num_poses, len(ids)), clause="count")
    if T is not None:
        ts = np.asarray(obj.timestamps)
        if ts.shape[0] != len(ids) or not np.array_equal(ts, np.asarray(T)[ids]):
            raise Mismatch("%s: timestamps do not belong to the kept poses %s: %s" % (what, ids[:10], ts[:10].tolist()), clause="tag_time")
    q = np.asarray(obj.orientations_quat_wxyz)
    if q.shape[0] != len(ids):
        raise Mismatch("%s: %d orientations for %d poses" % (what, q.shape[0], len(ids)), clause="count")
    if len(ids):
        exp = np.asarray(Q)[ids]
        d = np.minimum(np.abs(q - exp).max(axis=1), np.abs(q + exp).max(axis=1))
        if float(d.max()) > (0.0 if mode == "pq" else 1e-12):
            raise Mismatch("%s: orientations do not belong to the kept poses" % what, clause="tag_orientation")
        M = obj.poses_se3
        if len(M) != len(ids):
            raise Mismatch("%s: %d pose matrices for %d poses" % (what, len(M), len(ids)), clause="count")
        for m, i in zip(M, ids):
            if not np.array_equal(m[:3, 3], np.asarray(P)[i]):
                raise Mismatch("%s: pose matrix translation does not belong to the kept pose %d" % (what, i), clause="tag_se3")
    if any(b <= a for a, b in zip(ids, ids[1:])):
        raise Mismatch("%s: relative order of kept poses changed: %s" % (what, ids[:20]), clause="order")


# ---- down-sampling (exhaustive) -----------------------------------------------------------------

def check_downsample_ids(ids, n, N):
    m = min(N, n)
    if len(ids) != m:
        raise Mismatch("down-sampling %d poses to %d kept %d, expected %d" % (n, N, len(ids), m), clause="ds_count")
    if any(b <= a for a, b in zip(ids, ids[1:])):
        raise Mismatch("down-sampling %d -> %d: ids not strictly increasing %s" % (n, N, ids[:20]), clause="ds_order")
    if ids[0] != 0:
        raise Mismatch("down-sampling %d -> %d dropped the first pose" % (n, N), clause="ds_first")
    if N >= 2 and ids[-1] != n - 1:
        raise Mismatch("down-sampling %d -> %d dropped the last pose (last id %d)" % (n, N, ids[-1]), clause="ds_last")
    if N >= 2 and N < n:
        ideal = np.arange(N) * (n - 1) / (N - 1)
        dev = float(np.abs(np.asarray(ids) - ideal).max())
        if dev > 1.0:
            raise Mismatch("down-sampling %d -> %d is not evenly spaced: deviation %.3f from ideal index" % (n, N, dev), clause="ds_spacing")


def sub_downsample(case):
    n, N, mode = int(case["n"]), int(case["N"]), case["mode"]
    obj, P, Q, T = tagged(n, mode)
    if N < 1:
        try:
            obj.downsample(N)
        except TrajectoryException:
            return "refused"
        if n <= N:
            return "noop"
        raise Mismatch("down-sampling to %d poses was not refused" % N, clause="ds_refuse")
    obj.downsample(N)
    ids = [int(v) for v in np.asarray(obj.positions_xyz)[:, 0]]
    check_downsample_ids(ids, n, N)
    if case.get("full", True):
        check_together(obj, ids, P, Q, T, mode, "downsample %d->%d" % (n, N))
    else:
        if not np.array_equal(obj.timestamps, T[ids]) or not np.array_equal(obj.orientations_quat_wxyz, Q[ids]):
            raise Mismatch("downsample %d->%d: timestamps/orientations do not belong to the kept poses" % (n, N), clause="tag_time")
    return None


DS = None


def custom_downsample(ctx):
    from vf.runner import execute_case
    rep = Report()
    maxn = 400 if ctx["tier"] == "quick" else 2500
    shard, nshards = ctx["shard"], ctx["nshards"]
    n_eval = n_nt = 0
    sample = None
    idx = 0
    for n in range(1, maxn + 1):
        if n % nshards != shard:
            continue
        for N in range(-1, n + 3):
            idx += 1
            mode = "se3" if (n <= 60 and N % 5 == 0) else "pq"
            case = {"n": n, "N": N, "mode": mode, "full": n <= 60}
            inner = Report()
            v = execute_case(PROPERTY, DS, case, inner, counting=False)
            n_eval += 1
            if 1 <= N < n:
                n_nt += 1
            if sample is None and N > 1:
                sample = case
            if v is not None:
                rep.violations.append(v)
                rep.count_many("downsample", n_eval, n_nt, None, sample)
                rep.exhaustive["downsample"] = False
                return rep
    rep.count_many("downsample", n_eval, n_nt, None, sample)
    rep.exhaustive["downsample"] = True
    return rep


# ---- motion filter ----------------------------------------------------------------------------

def _mf_geometry(case):
    if "steps" in case:
        xs = np.concatenate([[0.0], np.cumsum(np.asarray(case["steps"], dtype=float))])
        n = len(xs)
        # unique tag in y (does not change step lengths: y constant) -> use z = tiny? keep exact: tag by index via stamps
        P = np.column_stack([xs, np.zeros(n), np.zeros(n)])
        yaw = np.concatenate([[0.0], np.cumsum(np.asarray(case["yaw"], dtype=float) * (math.pi / 8))])[:n]
        if len(yaw) < n:
            yaw = np.resize(yaw, n)
    else:
        P = np.asarray(case["P"], dtype=float) * float(case["mag"])
        n = len(P)
        for i in range(1, n):
            if case["still"][i % len(case["still"])]:
                P[i] = P[i - 1]
        yaw = np.cumsum(np.asarray((case["dyaw"] * n)[:n], dtype=float))
    return P, yaw


def sub_motion(case):
    P, yaw = _mf_geometry(case)
    n = len(P)
    mode = case["mode"]
    obj, P, Q, T = tagged(n, mode, P=P, yaw=yaw)
    Rs = [rm.quat_to_R(q) for q in Q]
    grid = "steps" in case
    dthr = float(case["dthr"])
    athr = float(case["athr"])  # radians
    deg = bool(case["deg"])
    a_arg = math.degrees(athr) if deg else athr
    if n < 2:
        try:
            obj.motion_filter(dthr, a_arg, deg)
        except filters.FilterException:
            return "refused"
        raise Mismatch("motion filter on a single pose not refused", clause="mf_refuse")
    if case.get("via") == "filters":
        ids = filters.filter_by_motion(obj.poses_se3, dthr, a_arg, deg)
        ids = [int(v) for v in ids]
    else:
        obj.motion_filter(dthr, a_arg, deg)
        ts = np.asarray(obj.timestamps)
        ids = [int(v) for v in ts]  # stamps are the indices (t0 = 0, dt = 1)
        check_together(obj, ids, P, Q, T, mode, "motion_filter") if len(set(map(tuple, P.tolist()))) == n else None
    steps = rm.step_lengths(P)
    scale = max(math.fsum(steps), dthr, 1e-300)
    try:
        pairsel.check_motion_filter(ids, P, Rs, dthr, athr, 0.0 if grid else 1e-9 * scale, 1e-9)
    except Bad as b:
        raise Mismatch("motion filter (dist %r, angle %r rad, degrees=%s, n=%d): %s; kept %s" % (dthr, athr, deg, n, b.msg, ids[:30]),
                       clause=b.clause)
    return "grid" if grid else "random"


def _mf_grid_cases(tier):
    maxn = 5 if tier == "quick" else 6
    for n in range(2, maxn + 1):
        for steps in itertools.product((0, 1, 2), repeat=n - 1):
            for yaw in itertools.product((0, 1, 3), repeat=n - 1):
                tot = sum(steps)
                for dthr in [0.0] + [float(v) for v in range(1, tot + 2)] + [1e9]:
                    for ak in (0.0, 0.5, 1.5, 2.5, 100.0):
                        yield {"steps": list(steps), "yaw": list(yaw), "dthr": dthr, "athr": min(ak * math.pi / 8, 50.0), "deg": bool((tot + int(ak)) % 2),
                               "mode": "pq" if (tot % 2) else "se3", "via": "filters" if (int(dthr) % 3 == 0) else "traj"}


MF = None


def custom_mf_grid(ctx):
    from vf.runner import execute_case
    rep = Report()
    n_eval = n_nt = 0
    sample = None
    for idx, case in enumerate(_mf_grid_cases(ctx["tier"])):
        if idx % ctx["nshards"] != ctx["shard"]:
            continue
        inner = Report()
        v = execute_case(PROPERTY, MF, case, inner, counting=False)
        n_eval += 1
        n_nt += 1 if (case["dthr"] > 0 and case["athr"] > 0) else 0
        sample = sample or case
        if v is not None:
            rep.violations.append(v)
            break
    rep.count_many("motion_grid", n_eval, n_nt, None, sample)
    rep.exhaustive["motion_grid"] = not rep.violations
    return rep


def sub_motion_args(case):
    obj, P, Q, T = tagged(4, "pq")
    for d, a in ((-1.0, 0.1), (0.1, -1.0)):
        try:
            obj.motion_filter(d, a)
        except filters.FilterException:
            continue
        raise Mismatch("negative threshold (%r, %r) not refused" % (d, a), clause="mf_refuse")


# ---- time crop --------------------------------------------------------------------------------

def sub_crop(case):
    dts = case["dts"]
    n = len(dts) + 1
    obj, P, Q, T = tagged(n, case["mode"], t0=float(case["t0"]), dts=dts)

    def bound(spec):
        k = spec["kind"]
        if k == "none":
            return None
        if k == "stamp":
            return float(T[spec["i"] % n])
        if k == "between":
            i = spec["i"] % n
            return float(T[i] + 0.5 * ((T[i + 1] - T[i]) if i + 1 < n else 1.0))
        if k == "before":
            return float(T[0] - 1.0 - spec["i"])
        if k == "after":
            return float(T[-1] + 1.0 + spec["i"])
        if k == "next":
            return float(np.nextafter(T[spec["i"] % n], np.inf if spec["i"] % 2 else -np.inf))
        raise ValueError(k)
    a, b = bound(case["start"]), bound(case["end"])
    lo = T[0] if a is None else a
    hi = T[-1] if b is None else b
    if lo > hi:
        try:
            obj.reduce_to_time_range(a, b)
        except TrajectoryException:
            return "refused"
        raise Mismatch("start %r > end %r not refused" % (a, b), clause="crop_refuse")
    obj.reduce_to_time_range(a, b)
    exp = [i for i in range(n) if lo <= T[i] <= hi]
    ts = np.asarray(obj.timestamps)
    got = [int(np.searchsorted(T, t)) for t in ts]
    if got != exp or not np.array_equal(ts, T[exp]):
        raise Mismatch("time crop [%r, %r] kept stamps %s, expected poses %s (stamps %s)" % (a, b, ts.tolist()[:12], exp[:12], T[exp].tolist()[:12]),
                       clause="crop_set")
    if len(exp):
        check_together(obj, exp, P, Q, T, case["mode"], "time crop")
    elif obj.num_poses != 0:
        raise Mismatch("empty crop left %d poses" % obj.num_poses, clause="crop_set")
    return "empty" if not exp else ("all" if len(exp) == n else "some")


# ---- splits -----------------------------------------------------------------------------------

def sub_split(case):
    kind = case["kind"]
    grid = case["grid"]
    if grid:
        steps = [float(v) for v in case["isteps"]]
        dts = [float(v) for v in case["idts"]][: len(steps)]
        while len(dts) < len(steps):
            dts.append(1.0)
        xs = np.concatenate([[0.0], np.cumsum(steps)])
        n = len(xs)
        P = np.column_stack([xs, np.zeros(n), np.zeros(n)])
    else:
        P = np.asarray(case["P"], dtype=float) * float(case["mag"])
        n = len(P)
        dts = (case["dts"] * n)[: n - 1]
    timed = kind != "path_distance"
    obj, P, Q, T = tagged(n, case["mode"], timed=timed, t0=float(case["t0"]), dts=dts if timed else None, P=P)
    # optional history before the split: derived quantities read, then the trajectory reduced
    pre = case.get("pre_history", [])
    if "read" in pre:
        obj.distances
        obj.path_length
    if "downsample" in pre and n >= 3:
        keep = list(range(0, n, 2))
        obj.reduce_to_ids(keep) if "ids" in pre else obj.downsample(len(keep))
        ids = [int(round(v)) for v in (np.asarray(obj.timestamps) - float(case["t0"]))] if False else None
        # identify the kept poses by position rows
        lut = {tuple(r): i for i, r in enumerate(P.tolist())}
        if len(lut) == n:
            ids = [lut[tuple(r)] for r in np.asarray(obj.positions_xyz).tolist()]
            P = P[ids]
            Q = Q[ids]
            n = len(ids)
        else:
            return "skipped_duplicate_positions"
    src_poses = [np.array(p) for p in obj.poses_se3]
    T = np.asarray(obj.timestamps) if timed else None
    steps_len = rm.step_lengths(P)
    thr_sel = case["thr"]
    if kind == "time":
        vals = [float(T[i + 1] - T[i]) for i in range(n - 1)]
    elif kind in ("distance", "path_distance"):
        vals = steps_len
    else:
        vals = [steps_len[i] / float(T[i + 1] - T[i]) for i in range(n - 1)]
    if thr_sel["kind"] == "zero" or not vals:
        thr = 0.0
    elif thr_sel["kind"] == "realised":
        thr = vals[thr_sel["i"] % len(vals)]
    elif thr_sel["kind"] == "huge":
        thr = 1e18
    else:
        thr = float(thr_sel["f"]) * (max(vals) if max(vals) > 0 else 1.0)
    if kind == "time":
        parts = obj.split_time_gaps(thr)
        margin = 0.0
    elif kind in ("distance", "path_distance"):
        parts = obj.split_distance_gaps(thr)
        margin = 0.0 if grid else 1e-9 * max(math.fsum(steps_len), thr, 1e-300)
    else:
        parts = obj.split_speed_outliers(thr)
        margin = 0.0 if grid else 1e-9 * max(max(vals) if vals else 0.0, thr, 1e-300)
    parts = list(parts)
    if not parts:
        raise Mismatch("split returned no parts", clause="split_partition")
    # partition: concatenation reproduces the input
    cat_P = np.concatenate([np.asarray(p.positions_xyz) for p in parts])
    if cat_P.shape != P.shape or not np.array_equal(cat_P, P):
        raise Mismatch("%s split: concatenated positions differ from the input (%d vs %d poses)" % (kind, len(cat_P), n), clause="split_partition")
    if timed:
        cat_T = np.concatenate([np.asarray(p.timestamps) for p in parts])
        if not np.array_equal(cat_T, T):
            raise Mismatch("%s split: concatenated timestamps differ from the input" % kind, clause="split_partition")
    cat_M = [m for p in parts for m in p.poses_se3]
    if len(cat_M) != n or not all(np.array_equal(a, b) for a, b in zip(cat_M, src_poses)):
        raise Mismatch("%s split: concatenated pose matrices differ from the input" % kind, clause="split_partition")
    cat_Q = np.concatenate([np.asarray(p.orientations_quat_wxyz) for p in parts])
    dq = np.minimum(np.abs(cat_Q - Q).max(axis=1), np.abs(cat_Q + Q).max(axis=1))
    if float(dq.max()) > 1e-12:
        raise Mismatch("%s split: orientations differ from the input" % kind, clause="split_partition")
    for p in parts:
        if timed and not isinstance(p, PoseTrajectory3D):
            raise Mismatch("part is not a PoseTrajectory3D", clause="split_type")
        if p.num_poses < 1:
            raise Mismatch("empty part", clause="split_partition")
    # cuts exactly at steps exceeding the threshold
    cuts = set(np.cumsum([p.num_poses for p in parts])[:-1].tolist())  # cut before index c: step c-1 -> c
    amb = 0
    for i in range(n - 1):
        v = vals[i]
        cut = (i + 1) in cuts
        if v > thr + margin and not cut:
            raise Mismatch("%s split (threshold %r): step %d->%d of size %r exceeds the threshold but stays inside a part" % (kind, thr, i, i + 1, v),
                           clause="split_missing_cut")
        if v <= thr - margin and cut or (margin == 0.0 and v <= thr and cut):
            raise Mismatch("%s split (threshold %r): cut at step %d->%d of size %r which does not exceed the threshold" % (kind, thr, i, i + 1, v),
                           clause="split_extra_cut")
    return "%s/%s/%d" % (kind, "grid" if grid else "rnd", min(len(parts), 3))


# ---- merge ------------------------------------------------------------------------------------

def sub_merge(case):
    trajs = []
    allT, allP, allQ = [], [], []
    for k, spec in enumerate(case["trajs"]):
        ks = sorted(set(spec["ks"]))
        n = len(ks)
        T = float(case["t0"]) + np.asarray(ks, dtype=float) * float(case["unit"])
        P = np.column_stack([np.full(n, float(k)), np.asarray(ks, dtype=float), np.arange(n, dtype=float)])
        yaw = 0.1 * k + 0.01 * np.asarray(ks, dtype=float)
        Q = np.column_stack([np.cos(yaw / 2), np.zeros(n), np.zeros(n), np.sin(yaw / 2)])
        if spec["mode"] == "pq":
            obj = PoseTrajectory3D(positions_xyz=P.copy(), orientations_quat_wxyz=Q.copy(), timestamps=T.copy())
        else:
            obj = PoseTrajectory3D(poses_se3=rm.poses_from(P, Q), timestamps=T.copy())
        for v in spec.get("pre", ()):
            getattr(obj, v)   # which representations exist already must not matter
        trajs.append(obj)
        allT.append(T)
        allP.append(P)
        allQ.append(Q)
    merged = trajectory.merge(trajs)
    T = np.concatenate(allT)
    P = np.concatenate(allP)
    Q = np.concatenate(allQ)
    mt = np.asarray(merged.timestamps)
    if merged.num_poses != len(T) or len(mt) != len(T):
        raise Mismatch("merged trajectory has %d poses / %d stamps for %d inputs poses" % (merged.num_poses, len(mt), len(T)), clause="merge_count")
    if np.any(np.diff(mt) < 0):
        raise Mismatch("merged timestamps not sorted", clause="merge_sorted")
    mp = np.asarray(merged.positions_xyz)
    mq = np.asarray(merged.orientations_quat_wxyz)
    mse3 = merged.poses_se3
    if len(mse3) != len(T):
        raise Mismatch("merged trajectory has %d pose matrices for %d poses" % (len(mse3), len(T)), clause="merge_count")
    lut = {tuple(p): i for i, p in enumerate(P.tolist())}
    used = set()
    for k in range(len(mt)):
        key = tuple(mp[k].tolist())
        if key not in lut:
            raise Mismatch("merged position %s is not an input position" % (key,), clause="merge_union")
        i = lut[key]
        if i in used:
            raise Mismatch("input pose used twice in the merge", clause="merge_union")
        used.add(i)
        if mt[k] != T[i]:
            raise Mismatch("merged pose %d carries stamp %r, its own stamp is %r" % (k, float(mt[k]), float(T[i])), clause="merge_own_stamp")
        if min(float(np.abs(mq[k] - Q[i]).max()), float(np.abs(mq[k] + Q[i]).max())) > 1e-12:
            raise Mismatch("merged pose %d carries another pose's orientation" % k, clause="merge_own_orientation")
        Mk = np.asarray(mse3[k])
        if float(np.abs(Mk[:3, 3] - P[i]).max()) > 0 or float(np.abs(Mk[:3, :3] - rm.quat_to_R(Q[i])).max()) > 1e-12:
            raise Mismatch("pose matrix %d of the merged trajectory (stamp %r) is not the pose that owns this stamp: matrix position %s, own position %s" % (
                k, float(mt[k]), Mk[:3, 3].tolist(), P[i].tolist()), clause="merge_own_pose_se3")
    # relative order of each input preserved
    for k in range(len(case["trajs"])):
        sel = [j for j in range(len(mt)) if mp[j][0] == float(k)]
        seq = [mp[j][2] for j in sel]
        if seq != sorted(seq):
            raise Mismatch("relative order of the poses of input %d changed" % k, clause="order")
    return "%d_inputs" % len(case["trajs"])


# ---- strategies -------------------------------------------------------------------------------

st_Pn = st.lists(st.lists(gen.unit_f, min_size=3, max_size=3), min_size=1, max_size=25)
st_motion = st.fixed_dictionaries({
    "P": st_Pn, "mag": gen.log_uniform(-2, 3), "still": st.lists(st.booleans(), min_size=1, max_size=5),
    "dyaw": st.lists(st.sampled_from([0.0, 0.01, 0.2, 1.0, -0.7]), min_size=1, max_size=6),
    "dthr": st.one_of(st.just(0.0), gen.log_uniform(-3, 4)), "athr": st.one_of(st.just(0.0), gen.fl(0.0, 3.2), st.just(50.0)),
    "deg": st.booleans(), "mode": st.sampled_from(["pq", "se3"]), "via": st.sampled_from(["traj", "filters"])})
st_bound = st.fixed_dictionaries({"kind": st.sampled_from(["none", "stamp", "between", "before", "after", "next"]), "i": st.integers(0, 30)})
st_crop = st.fixed_dictionaries({
    "dts": st.lists(st.one_of(gen.fl(1e-3, 5.0), st.sampled_from([0.1, 0.01])), min_size=0, max_size=20),
    "t0": st.sampled_from([0.0, 1.5e9 + 0.123456789, 100.0]), "start": st_bound, "end": st_bound, "mode": st.sampled_from(["pq", "se3"])})
st_thr = st.fixed_dictionaries({"kind": st.sampled_from(["zero", "realised", "realised", "free", "huge"]), "i": st.integers(0, 30), "f": gen.fl(0.0, 1.2)})
st_split = st.fixed_dictionaries({
    "kind": st.sampled_from(["time", "distance", "path_distance", "speed"]), "grid": st.booleans(),
    "isteps": st.lists(st.integers(0, 4), min_size=0, max_size=12), "idts": st.lists(st.sampled_from([1, 2, 4, 8]), min_size=0, max_size=12),
    "P": st_Pn, "mag": gen.log_uniform(-2, 3), "dts": st.lists(st.one_of(gen.fl(1e-3, 5.0), st.sampled_from([0.1, 1.0])), min_size=1, max_size=8),
    "t0": st.sampled_from([0.0, 1.5e9]), "thr": st_thr, "mode": st.sampled_from(["pq", "se3"]),
    "pre_history": st.sampled_from([[], [], ["read"], ["read", "downsample"], ["read", "downsample", "ids"], ["downsample"]])})
st_merge = st.fixed_dictionaries({
    "trajs": st.lists(st.fixed_dictionaries({"ks": st.lists(st.integers(0, 30), min_size=1, max_size=12), "mode": st.sampled_from(["pq", "se3"]),
                                                    "pre": st.lists(st.sampled_from(["positions_xyz", "orientations_quat_wxyz", "poses_se3"]), max_size=2, unique=True)}),
                      min_size=1, max_size=6),
    "t0": st.sampled_from([0.0, 1.5e9]), "unit": st.sampled_from([1.0, 0.1, 1e-3])})

DS = Sub("downsample_case", sub_downsample, st.fixed_dictionaries({"n": st.integers(1, 5000), "N": st.integers(-2, 5002), "mode": st.sampled_from(["pq", "se3"])}),
         300, 5000, nontrivial=lambda c: 1 <= c["N"] < c["n"])
MF = Sub("motion", sub_motion, st_motion, 1500, 60000, nontrivial=lambda c: c["dthr"] > 0 or c["athr"] > 0)
SUBS = [
    DS, MF,
    Sub("downsample", kind="custom", custom=custom_downsample, n_quick=1, n_thorough=1, shards_quick=16, shards_thorough=16,
        exhaustive_tiers=("quick", "thorough")),
    Sub("motion_grid", kind="custom", custom=custom_mf_grid, n_quick=1, n_thorough=1, shards_quick=8, shards_thorough=16,
        exhaustive_tiers=("quick", "thorough")),
    Sub("motion_args", sub_motion_args, st.just({}), 1, 1),
    Sub("crop", sub_crop, st_crop, 1500, 60000, nontrivial=lambda c: True),
    Sub("split", sub_split, st_split, 2000, 80000, nontrivial=lambda c: True),
    Sub("merge", sub_merge, st_merge, 800, 30000, nontrivial=lambda c: len(c["trajs"]) >= 2),
]


# ---- the same operations requested through evo_traj (--downsample / --motion_filter / --merge, with and without --ref) ----
from vf.checks import c15 as _c15
SUBS.append(Sub("cli_traj", _c15.sub_traj, _c15.make_st_case(
    downsample=st.sampled_from([None, 2, 7, 100]), mf=st.sampled_from([None, [0.5, 5.0], [0.0, 0.0], [5.0, 20.0], [1.0, 400.0]]),
    tf=st.none(), align_mode=st.just("none"), correct_scale=st.just(False), project=st.none()), 400, 10000,
    nontrivial=lambda c: any(c["opts"].get(k) for k in ("downsample", "motion_filter", "merge")), shards_quick=4))

# ---- time cropping requested through evo_ape (--t_start / --t_end, one- and two-sided) ------------------------------------
from vf.checks import c01 as _c01
SUBS.append(Sub("cli_crop", _c01.sub_cli, _c01.st_cli(force_crop=True), 250, 8000,
                nontrivial=lambda c: c["opts"].get("t_start") is not None or c["opts"].get("t_end") is not None, shards_quick=4))
