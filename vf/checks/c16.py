"""C16 — Computations do not modify their inputs or other trajectory objects."""
import copy
import io
import math
import os
import tempfile

import numpy as np
from hypothesis import strategies as st

from vf import gen, refmodel as rm, trajgen, snapshot
from vf.core import Mismatch, Sub

from evo.core import metrics, geometry, sync, filters, trajectory, result as evo_result, lie_algebra as lie
from evo.core.metrics import PoseRelation, Unit
from evo.core.trajectory import PosePath3D, PoseTrajectory3D, Plane
from evo.tools import file_interface, pandas_bridge

PROPERTY = "C16"
RULE = ("phase 1: registry of the public computing/writing functions of evo.core and evo.tools (APE/RPE process_data, statistics, "
        "get_result, umeyama_alignment, align/align_origin reference, matching_time_indices, associate_trajectories, the pair "
        "selectors, filter_by_motion, merge_results, trajectory.merge, DataFrame conversions, TUM/KITTI/result writers, plot "
        "functions) on Hypothesis-generated valid inputs: deep bit-exact snapshot of every argument before/after; phase 2 "
        "(histories): objects derived from a trajectory (deepcopy, both association outputs, split parts of all three splitters "
        "with and without an actual split, merge, DataFrame round trip) get 1-4 drawn mutators (transform, scale, project, "
        "reduce_to_ids, downsample, align), then the source gets some, and after each step the other side is compared bit for "
        "bit and semantically. Non-trivial = phase-2 history containing project (in-place capable); distinct by SHA-1"
        ' Round-3 additions: results with attached trajectories / without est_name; the merged result is modified and the inputs re-compared.')
ASSUMPTIONS = ["snapshots cover the private attributes that exist at snapshot time; newly materialised consistent caches are not changes"]
PLANES = {"xy": Plane.XY, "xz": Plane.XZ, "yz": Plane.YZ}


def _pair(case):
    ref, est = trajgen.realise_pair(case, with_stamps=True)
    if est.T is None:
        est.T = ref.T.copy()
    return ref, est


def _snap_all(objs):
    return [snapshot.snapshot(o) for o in objs]


def _diff_all(snaps, objs, fname):
    for k, (s, o) in enumerate(zip(snaps, objs)):
        d = snapshot.diff(s, o)
        if d:
            raise Mismatch("%s modified its argument #%d (%s): %s" % (fname, k, type(o).__name__, d), observed="argument_modified", function=fname)


def _mk_results(case, ref, est):
    out = []
    for k in range(2 + case["misc"]["k"] % 3):
        r = evo_result.Result()
        r.add_info({"title": "t%d" % k, "ref_name": "r"} if case["misc"].get("no_est_name") else {"title": "t%d" % k, "est_name": "e%d" % k, "ref_name": "r"})
        r.add_stats({"rmse": 1.0 + k, "mean": 0.5 * k})
        r.add_np_array("error_array", np.arange(3 + (k if case["misc"]["uneven"] else 0), dtype=float) + k)
        if case["misc"].get("with_traj"):
            # results as ape()/rpe() return them: the processed trajectories attached
            r.add_trajectory("ref", ref.build(case["ref"]["pre"], timed=True))
            r.add_trajectory("est", est.build(case["est"]["pre"], timed=False))
        out.append(r)
    return out


REGISTRY = {}


def reg(name):
    def deco(f):
        REGISTRY[name] = f
        return f
    return deco


@reg("APE.process_data+stats+result")
def _f_ape(case, ref, est):
    ro, eo = ref.build(case["ref"]["pre"], timed=True), est.build(case["est"]["pre"], timed=True)
    m = metrics.APE(PoseRelation(case["misc"]["relation"]))
    yield [ro, eo]
    m.process_data((ro, eo))
    m.get_all_statistics()
    m.get_result()


@reg("RPE.process_data+stats+result")
def _f_rpe(case, ref, est):
    ro, eo = ref.build(case["ref"]["pre"], timed=True), est.build(case["est"]["pre"], timed=True)
    m = metrics.RPE(PoseRelation(case["misc"]["relation"]), 1, Unit.frames, all_pairs=case["misc"]["flag"])
    yield [ro, eo]
    try:
        m.process_data((ro, eo))
        m.get_all_statistics()
        m.get_result()
    except (filters.FilterException, ValueError):
        pass


@reg("PE.get_statistic(result array)")
def _f_stats(case, ref, est):
    m = metrics.APE(PoseRelation.translation_part)
    m.process_data((ref.build(timed=True), est.build(timed=True)))
    res = m.get_result()
    arr = res.np_arrays["error_array"]
    before = arr.copy()
    yield [res]
    m.get_all_statistics()
    if not np.array_equal(arr, before):
        raise Mismatch("statistics changed the result's array", observed="argument_modified", function="PE.get_statistic")


@reg("geometry.umeyama_alignment")
def _f_umeyama(case, ref, est):
    x, y = est.P.T.copy(), ref.P.T.copy()
    yield [x, y]
    try:
        geometry.umeyama_alignment(x, y, case["misc"]["flag"])
    except geometry.GeometryException:
        pass


@reg("PosePath3D.align(reference)")
def _f_align(case, ref, est):
    ro, eo = ref.build(case["ref"]["pre"]), est.build(case["est"]["pre"])
    yield [ro]
    try:
        eo.align(ro, correct_scale=case["misc"]["flag"])
    except geometry.GeometryException:
        pass


@reg("PosePath3D.align_origin(reference)")
def _f_origin(case, ref, est):
    ro, eo = ref.build(case["ref"]["pre"]), est.build(case["est"]["pre"])
    yield [ro]
    eo.align_origin(ro)


@reg("sync.matching_time_indices")
def _f_mti(case, ref, est):
    a, b = ref.T.copy(), est.T.copy() + 0.001
    yield [a, b]
    sync.matching_time_indices(a, b, 0.01, case["misc"]["offset"])


@reg("sync.associate_trajectories")
def _f_assoc(case, ref, est):
    ro, eo = ref.build(case["ref"]["pre"], timed=True), est.build(case["est"]["pre"], timed=True)
    # make the two differ in length (either one shorter) so that association really selects
    shorter = eo if case["misc"]["flag"] else ro
    shorter.reduce_to_ids(list(range(0, shorter.num_poses, 2)))
    yield [ro, eo]
    try:
        a, b = sync.associate_trajectories(ro, eo, 0.01, 0.0)
    except sync.SyncException:
        return
    if a is ro or a is eo or b is ro or b is eo:
        raise Mismatch("associate_trajectories returned one of its arguments", observed="argument_modified", function="sync.associate_trajectories")
    snaps = _snap_all([ro, eo])
    a.scale(2.0)
    b.transform(rm.se3(np.eye(3), np.array([1.0, 2.0, 3.0])))
    _diff_all(snaps, [ro, eo], "mutating the outputs of associate_trajectories")


@reg("filters.* / metrics.id_pairs_from_delta")
def _f_filters(case, ref, est):
    poses = [p.copy() for p in est.poses]
    yield [poses]
    filters.filter_pairs_by_index(poses, 1, case["misc"]["flag"])
    filters.filter_pairs_by_path(poses, 0.5 * float(np.linalg.norm(est.P[-1] - est.P[0])) + 1e-3, 0.1, case["misc"]["flag"])
    filters.filter_pairs_by_angle(poses, 0.5, 0.1, False, case["misc"]["flag"])
    if len(poses) >= 2:
        filters.filter_by_motion(poses, 0.1, 0.1)
    try:
        metrics.id_pairs_from_delta(poses, 1.0, Unit.meters, 0.1, case["misc"]["flag"])
    except filters.FilterException:
        pass


@reg("result.merge_results")
def _f_merge_results(case, ref, est):
    rs = _mk_results(case, ref, est)
    yield [rs] + rs
    merged = evo_result.merge_results(rs)
    # the merged result is an object of its own: working on it later must not reach the inputs
    snaps = _snap_all(rs)
    merged.info["title"] = "changed"
    merged.stats["rmse"] = -1.0
    for a in merged.np_arrays.values():
        a *= 2.0
    for t in merged.trajectories.values():
        t.scale(2.0)
        t.transform(rm.se3(np.eye(3), np.array([1.0, 2.0, 3.0])))
        t.reduce_to_ids([0])
    _diff_all(snaps, rs, "modifying the result returned by merge_results")


@reg("trajectory.merge")
def _f_merge(case, ref, est):
    ro, eo = ref.build(case["ref"]["pre"], timed=True), est.build(case["est"]["pre"], timed=True)
    yield [ro, eo]
    trajectory.merge([ro, eo])


@reg("pandas_bridge conversions")
def _f_df(case, ref, est):
    if ref.mode == "pq" and case["misc"].get("uneven"):
        # -q describes the same rotation as q: stored quaternions with negative w are common in recorded data
        sg = np.where(np.arange(ref.n) % 2 == 0, -1.0, 1.0)
        ref = trajgen.Real(ref.P, ref.Rs(), "pq", ref.T, Q=ref.Q * sg[:, None])
    ro = ref.build(case["ref"]["pre"], timed=case["misc"]["flag"])
    rs = _mk_results(case, ref, est)
    yield [ro, rs[0]]
    df = pandas_bridge.trajectory_to_df(ro)
    snap_df = df.copy(deep=True)
    pandas_bridge.trajectory_to_df(ro)
    pandas_bridge.df_to_trajectory(df)
    if not df.equals(snap_df):
        raise Mismatch("df_to_trajectory modified the DataFrame it was given", observed="argument_modified", function="pandas_bridge.df_to_trajectory")
    pandas_bridge.result_to_df(rs[0])
    pandas_bridge.trajectory_stats_to_df(ro)


@reg("file_interface writers")
def _f_writers(case, ref, est):
    if case["misc"].get("no_est_name") and ref.mode == "pq":
        # quaternions that are unit only to text-file precision (valid by evo's own check())
        f = np.asarray(([3e-7, -8e-7, 0.0, 5e-6] * ref.n)[: ref.n])
        ref = trajgen.Real(ref.P, ref.Rs(), "pq", ref.T, Q=ref.Q * (1.0 + f)[:, None])
    ro = ref.build(case["ref"]["pre"], timed=True)
    po = est.build(case["est"]["pre"], timed=False)
    rs = _mk_results(case, ref, est)[0]
    rs.add_trajectory("ref", ro)
    rs.add_trajectory("path", po)
    yield [ro, po, rs]
    file_interface.write_tum_trajectory_file(io.StringIO(), ro)
    file_interface.write_kitti_poses_file(io.StringIO(), po)
    file_interface.write_kitti_poses_file(io.StringIO(), ro)
    file_interface.save_res_file(io.BytesIO(), rs)


@reg("lie_algebra helpers")
def _f_lie(case, ref, est):
    A, B = est.poses[0].copy(), ref.poses[0].copy()
    yield [A, B]
    lie.se3_inverse(A)
    lie.relative_se3(A, B)
    lie.sim3_inverse(A)
    lie.so3_log(A[:3, :3])
    lie.is_se3(A)
    lie.is_sim3(A)


def sub_phase1(case):
    ref, est = _pair(case)
    name = case["function"]
    g = REGISTRY[name](case, ref, est)
    objs = next(g)
    snaps = _snap_all(objs)
    try:
        next(g)
    except StopIteration:
        pass
    _diff_all(snaps, objs, name)
    return name


def sub_plots(case):
    import matplotlib
    matplotlib.use("Agg")
    import matplotlib.pyplot as plt
    from evo.tools import plot
    ref, est = _pair(case)
    ro, eo = ref.build(case["ref"]["pre"], timed=True), est.build(case["est"]["pre"], timed=True)
    err = np.abs(np.sin(np.arange(est.n, dtype=float))) + 0.1
    objs = [ro, eo, err]
    snaps = _snap_all(objs)
    mode = plot.PlotMode[case["misc"]["plot_mode"]]
    fig = plt.figure()
    try:
        ax = plot.prepare_axis(fig, mode)
        plot.traj(ax, mode, ro, plot_start_end_markers=True)
        # colour-map bounds inside the data range (as --plot_colormap_min/max/_max_percentile give them) or at its ends
        lo, hi = float(err.min()), float(err.max())
        if case["misc"].get("uneven"):
            lo, hi = lo + 0.25 * (hi - lo), hi - 0.25 * (hi - lo)
        plot.traj_colormap(ax, eo, err, mode, min_map=lo, max_map=hi)
        plot.draw_coordinate_axes(ax, eo, mode, 0.1)
        plot.draw_correspondence_edges(ax, eo, ro, mode)
        fig2, axarr = plt.subplots(3)
        t_start = float(ro.timestamps[0]) if case["misc"]["flag"] else float(ro.timestamps[0]) - 7.5
        plot.traj_xyz(axarr, ro, start_timestamp=t_start)
        plot.traj_rpy(axarr, eo, start_timestamp=t_start)
        plot.traj_xyz(axarr, eo, start_timestamp=t_start)
        fig3 = plt.figure()
        if est.n >= 2:
            plot.speeds(fig3.gca(), eo, start_timestamp=t_start)
            plot.speeds(fig3.gca(), ro, start_timestamp=t_start)
        plot.error_array(fig3.gca(), err, x_array=np.arange(est.n, dtype=float), statistics={"mean": float(err.mean())})
        fig4 = plt.figure()
        plot.trajectories(fig4, {"a": ro, "b": eo}, mode)
    finally:
        plt.close("all")
    _diff_all(snaps, objs, "plot functions (%s)" % mode.value)
    return "plots"


# ---- phase 2: derived objects are independent -----------------------------------------------------

def _mutate(obj, op, rng_seed):
    k = op["op"]
    if k == "transform":
        T = rm.se3(gen.rot_matrix(op["rot"]), np.asarray(op["t"], dtype=float) * 3.0)
        right = bool(op.get("right", False))
        obj.transform(T, right_mul=right, propagate=right and bool(op.get("propagate")))
    elif k == "scale":
        obj.scale(float(op["s"]))
    elif k == "project":
        if not obj._projected:
            obj.project(PLANES[op["plane"]])
    elif k == "ids":
        n = obj.num_poses
        ids = sorted(set(int(v) % n for v in op["ids"]))
        obj.reduce_to_ids(ids)
    elif k == "downsample":
        obj.downsample(max(1, int(op["n"])))
    elif k == "align":
        n = obj.num_poses
        rng = gen.bulk_rng(rng_seed)
        refo = PosePath3D(positions_xyz=rng.standard_normal((n, 3)), orientations_quat_wxyz=np.tile([1.0, 0, 0, 0], (n, 1)))
        try:
            obj.align(refo, correct_scale=True)
        except geometry.GeometryException:
            pass
    else:
        raise ValueError(k)


def _full_view(obj):
    """semantic content through the public views (materialises caches on purpose)"""
    out = {"P": np.array(obj.positions_xyz, copy=True), "Q": np.array(obj.orientations_quat_wxyz, copy=True),
           "M": np.array([np.array(p) for p in obj.poses_se3])}
    if hasattr(obj, "timestamps"):
        out["T"] = np.array(obj.timestamps, copy=True)
    return out


def _same_view(a, b):
    for k in a:
        if a[k].shape != b[k].shape:
            return k
        if k == "Q":
            d = np.minimum(np.abs(a[k] - b[k]).max(axis=1), np.abs(a[k] + b[k]).max(axis=1)) if len(a[k]) else np.zeros(0)
            if d.size and float(d.max()) > 1e-12:
                return k
        elif not np.array_equal(a[k], b[k]):
            return k
    return None


def _derive(kind, src, case):
    """returns list of derived objects"""
    if kind == "deepcopy":
        return [copy.deepcopy(src)]
    if kind == "associate":
        other = copy.deepcopy(src)
        a, b = sync.associate_trajectories(src, other, 0.01)
        return [a, b]
    if kind == "associate_short":
        other = trajectory.merge([src, _shifted(src, 1000.0)])
        a, b = sync.associate_trajectories(src, other, 0.01)
        return [a, b]
    if kind == "associate_second":
        other = copy.deepcopy(src)
        other.reduce_to_ids(list(range(0, other.num_poses, 2)))
        a, b = sync.associate_trajectories(other, src, 0.01)
        return [b, a]
    if kind in ("split_time", "split_distance", "split_speed"):
        thr = 1e18 if case["nosplit"] else 0.0
        if kind == "split_time":
            parts = src.split_time_gaps(thr if case["nosplit"] else _median_dt(src))
        elif kind == "split_distance":
            parts = src.split_distance_gaps(thr if case["nosplit"] else _median_step(src))
        else:
            parts = src.split_speed_outliers(thr if case["nosplit"] else _median_speed(src))
        return list(parts)
    if kind == "merge":
        return [trajectory.merge([src])] if case["nosplit"] else [trajectory.merge([src, _shifted(src)])]
    if kind == "df":
        return [pandas_bridge.df_to_trajectory(pandas_bridge.trajectory_to_df(src))]
    raise ValueError(kind)


def _shifted(src, dt=0.123):
    o = copy.deepcopy(src)
    o.timestamps = o.timestamps + dt
    return o


def _median_dt(src):
    d = np.diff(src.timestamps)
    return float(np.median(d)) if len(d) else 0.0


def _median_step(src):
    s = rm.step_lengths(src.positions_xyz) if src.num_poses > 1 else []
    return float(np.median(s)) if len(s) else 0.0


def _median_speed(src):
    if src.num_poses < 2:
        return 0.0
    s = np.array(rm.step_lengths(src.positions_xyz)) / np.diff(src.timestamps)
    return float(np.median(s))


def sub_phase2(case):
    real = trajgen.realise(case["traj"])
    src = real.build(case["traj"]["pre"], timed=True)
    kind = case["derive"]
    # for the splitters the lazily created matrices of the source are what the parts are built from
    derived = _derive(kind, src, case)
    if not derived:
        return kind
    for d in derived:
        if d is src:
            raise Mismatch("%s returned the source object itself as a 'derived' object: operating on the part operates on the source" % kind,
                           observed="same_object", derive=kind, nosplit=bool(case["nosplit"]))
    pick = derived[case["pick"] % len(derived)]
    src_snap = snapshot.snapshot(src)
    src_view = _full_view(copy.deepcopy(src))
    has_project = False
    for i, op in enumerate(case["ops_derived"]):
        _mutate(pick, op, case["seed"] + i)
        has_project = has_project or op["op"] == "project"
        d = snapshot.diff(src_snap, src)
        if d:
            raise Mismatch("%s on an object derived by %s changed the source trajectory's %s" % (op["op"], kind, d),
                           observed="source_changed", derive=kind, mutator=op["op"])
        bad = _same_view(src_view, _full_view(copy.deepcopy(src)))
        if bad:
            raise Mismatch("%s on an object derived by %s changed the poses seen through the source (%s)" % (op["op"], kind, bad),
                           observed="source_changed", derive=kind, mutator=op["op"])
    pick_snap = snapshot.snapshot(pick)
    pick_view = _full_view(copy.deepcopy(pick))
    others = [d for d in derived if d is not pick]
    other_snaps = [snapshot.snapshot(o) for o in others]
    for i, op in enumerate(case["ops_source"]):
        _mutate(src, op, case["seed"] + 100 + i)
        d = snapshot.diff(pick_snap, pick)
        if d:
            raise Mismatch("%s on the source changed the %s-derived object's %s" % (op["op"], kind, d), observed="derived_changed",
                           derive=kind, mutator=op["op"])
        bad = _same_view(pick_view, _full_view(copy.deepcopy(pick)))
        if bad:
            raise Mismatch("%s on the source changed the poses seen through the %s-derived object (%s)" % (op["op"], kind, bad),
                           observed="derived_changed", derive=kind, mutator=op["op"])
        for o, s in zip(others, other_snaps):
            if snapshot.diff(s, o):
                raise Mismatch("%s on the source changed a sibling %s-derived object" % (op["op"], kind), observed="derived_changed",
                               derive=kind, mutator=op["op"])
    return "%s%s" % (kind, "/nosplit" if case["nosplit"] and kind.startswith("split") else "")


def sub_ctor_alias(case):
    """a trajectory built from a caller's list of matrices: operations on the trajectory never change the caller's list"""
    real = trajgen.realise(case["traj"])
    mats = [p.copy() for p in real.poses]
    keep = [m.copy() for m in mats]
    obj = PoseTrajectory3D(poses_se3=mats, timestamps=real.T.copy())
    # the same with positions / quaternions / stamps given as float64 arrays the caller keeps
    Pc = np.array(real.P, dtype=np.float64)
    Qc = np.array([rm.R_to_quat(R) for R in real.Rs()], dtype=np.float64)
    Tc = np.array(real.T, dtype=np.float64)
    keep_pq = (Pc.copy(), Qc.copy(), Tc.copy())
    obj2 = PoseTrajectory3D(Pc, Qc, Tc)
    # and a second trajectory built from another trajectory's views
    src = real.build(case["traj"]["pre"], timed=True)
    src_snap = snapshot.snapshot(src)
    src_view = _full_view(copy.deepcopy(src))
    obj3 = PoseTrajectory3D(src.positions_xyz, src.orientations_quat_wxyz, src.timestamps)
    for i, op in enumerate(case["ops_derived"]):
        _mutate(obj, op, case["seed"] + i)
        if len(mats) != len(keep) or not all(np.array_equal(a, b) for a, b in zip(mats, keep)):
            raise Mismatch("%s on a trajectory changed the list of pose matrices it was constructed from" % op["op"],
                           observed="source_changed", derive="constructor", mutator=op["op"])
        _mutate(obj2, op, case["seed"] + i)
        if not (np.array_equal(Pc, keep_pq[0]) and np.array_equal(Qc, keep_pq[1]) and np.array_equal(Tc, keep_pq[2])):
            raise Mismatch("%s on a trajectory changed the position/quaternion/timestamp arrays it was constructed from" % op["op"],
                           observed="source_changed", derive="constructor_arrays", mutator=op["op"])
        _mutate(obj3, op, case["seed"] + i)
        if snapshot.diff(src_snap, src) or _same_view(src_view, _full_view(copy.deepcopy(src))):
            raise Mismatch("%s on a trajectory built from another trajectory's views changed that trajectory" % op["op"],
                           observed="source_changed", derive="constructor_views", mutator=op["op"])
    return "ctor"


# ---- strategies --------------------------------------------------------------------------------

st_misc = st.fixed_dictionaries({
    "relation": st.sampled_from([r.value for r in PoseRelation if r is not PoseRelation.point_distance_error_ratio]),
    "flag": st.booleans(), "k": st.integers(0, 5), "uneven": st.booleans(), "no_est_name": st.booleans(), "with_traj": st.booleans(), "offset": st.sampled_from([0.0, 0.5, -0.001]),
    "plot_mode": st.sampled_from(["xy", "xz", "yx", "yz", "zx", "zy", "xyz"])})
st_p1 = st.tuples(trajgen.st_pair(2, 8, stamps=True, exp_lo=-1, exp_hi=4), st_misc, st.sampled_from(sorted(REGISTRY))).map(
    lambda t: dict(t[0], misc=t[1], function=t[2]))
st_plots = st.tuples(trajgen.st_pair(2, 6, stamps=True, exp_lo=-1, exp_hi=3), st_misc).map(lambda t: dict(t[0], misc=t[1]))
st_op = st.one_of(
    st.fixed_dictionaries({"op": st.just("transform"), "rot": gen.st_rotation_generic, "t": st.lists(gen.unit_f, min_size=3, max_size=3), "right": st.booleans(), "propagate": st.booleans()}),
    st.fixed_dictionaries({"op": st.just("scale"), "s": st.sampled_from([0.5, 2.0, 3.25])}),
    st.fixed_dictionaries({"op": st.just("project"), "plane": st.sampled_from(["xy", "xz", "yz"])}),
    st.fixed_dictionaries({"op": st.just("project"), "plane": st.sampled_from(["xy", "xz", "yz"])}),
    st.fixed_dictionaries({"op": st.just("ids"), "ids": st.lists(st.integers(0, 20), min_size=1, max_size=8)}),
    st.fixed_dictionaries({"op": st.just("downsample"), "n": st.integers(1, 6)}),
    st.fixed_dictionaries({"op": st.just("align")}),
)
st_p2 = st.integers(2, 10).flatmap(lambda n: st.fixed_dictionaries({
    "traj": trajgen.st_traj(n, stamps=True, exp_lo=-1, exp_hi=3),
    "derive": st.sampled_from(["deepcopy", "associate", "associate_second", "associate_short", "split_time", "split_distance", "split_speed", "merge", "df"]),
    "nosplit": st.booleans(), "pick": st.integers(0, 5),
    "ops_derived": st.lists(st_op, min_size=1, max_size=4), "ops_source": st.lists(st_op, min_size=0, max_size=3),
    "seed": st.integers(0, 2 ** 32)}))


def _nt2(c):
    return any(o["op"] == "project" for o in c["ops_derived"] + c["ops_source"])


SUBS = [
    Sub("arguments", sub_phase1, st_p1, 3000, 50000, nontrivial=lambda c: True),
    Sub("plots", sub_plots, st_plots, 40, 1500, nontrivial=lambda c: True, shards_quick=4),
    Sub("derived", sub_phase2, st_p2, 2500, 80000, nontrivial=_nt2, shards_quick=8),
    Sub("constructor", sub_ctor_alias, st_p2, 400, 15000, nontrivial=_nt2),
]
