"""End-to-end checking of evo_ape / evo_rpe runs on generated files.

The archive written by --save_results (with save_traj_in_zip switched on through a -c file) is read
back with the independent reader and judged by a chain of validity checks that follows the documented
processing order: load -> down-sample -> motion filter -> crop reference -> associate -> align ->
origin-align -> project -> metric -> unit change.  Selection steps whose law admits several outputs
(down-sampling, motion filter) are obtained from evo's own operation on tagged copies and validated
with the C11 checkers, so that the end-to-end check never demands more than the per-step properties.
"""
import json
import math
import os
from fractions import Fraction

import numpy as np

from vf import gen, refmodel as rm, cli, pairsel
from vf.core import Mismatch, Skip
from vf.pairsel import Bad

PLANE_NULL = {"xy": 2, "xz": 1, "yz": 0}
UNIT_FACT = {"mm": 1000.0, "cm": 100.0, "m": 1.0, "km": 1e-3}
REL_CLI = {"full": "full_transformation", "trans_part": "translation_part", "rot_part": "rotation_part", "angle_deg": "rotation_angle_deg",
           "angle_rad": "rotation_angle_rad", "point_distance": "point_distance"}


def make_inputs(case):
    """tagged reference and estimate numbers from the case (stamps on a millisecond lattice)"""
    g = case["data"]
    n = int(g["n"])
    t0 = float(g["t0"])
    dt = float(g["dt"])
    Tr = t0 + dt * np.arange(n)
    rng = gen.bulk_rng(g["seed"])
    Pr = np.cumsum(rng.standard_normal((n, 3)) * float(g["step"]), axis=0) + np.asarray(gen.OFFSETS[int(g["off"])])
    still = rng.uniform(size=n) < float(g["still"])
    for i in range(1, n):
        if still[i]:
            Pr[i] = Pr[i - 1]
    yaw = np.cumsum(rng.choice([0.0, 0.02, 0.3], size=n))
    axis = gen.unit_axis(g["axis"])
    Rr = [rm.rodrigues(axis * a) for a in yaw]
    Qr = np.array([rm.R_to_quat(R) for R in Rr])
    R0 = rm.quat_to_R(rm.random_unit_quat(rng))
    c = float(g["scale"])
    off = float(case["opts"].get("t_offset", 0.0))
    if g.get("est_dense"):
        # the estimate is sampled twice as densely as the reference (more poses than the reference)
        m = 2 * n - 1
        f = np.arange(m) / 2.0
        lo = np.floor(f).astype(int)
        hi = np.minimum(lo + 1, n - 1)
        w = (f - lo)[:, None]
        Pi = Pr[lo] * (1 - w) + Pr[hi] * w
        jit = rng.uniform(-1, 1, size=m) * float(g["jitter"])
        Te = np.round(t0 + 0.5 * dt * np.arange(m) + jit - off, 6)
        Pe = (c * (R0 @ Pi.T)).T + rng.standard_normal(3) * 3.0 + float(g["noise"]) * rng.standard_normal((m, 3))
        Qe = np.array([rm.R_to_quat(R0 @ Rr[i] @ rm.rodrigues(rng.standard_normal(3) * 0.05)) for i in lo])
    else:
        keep = rng.uniform(size=n) < float(g["keep"])
        keep[: min(4, n)] = True
        idx = np.nonzero(keep)[0]
        jit = rng.uniform(-1, 1, size=len(idx)) * float(g["jitter"])
        Te = Tr[idx] + jit - off
        Te = np.round(Te, 6)
        Pe = (c * (R0 @ Pr[idx].T)).T + rng.standard_normal(3) * 3.0 + float(g["noise"]) * rng.standard_normal((len(idx), 3))
        Qe = np.array([rm.R_to_quat(R0 @ Rr[i] @ rm.rodrigues(rng.standard_normal(3) * 0.05)) for i in idx])
    if np.any(np.diff(Te) <= 0):
        raise Skip("non-increasing estimate stamps")
    return (Tr, Pr, Qr), (Te, Pe, Qe)


def write_inputs(d, fmt, ref, est):
    Tr, Pr, Qr = ref
    Te, Pe, Qe = est
    if fmt == "tum":
        rp, ep = os.path.join(d, "ref.txt"), os.path.join(d, "est.txt")
        open(rp, "w").write(rm.write_tum(Tr, Pr, Qr))
        open(ep, "w").write(rm.write_tum(Te, Pe, Qe))
        return ["tum", rp, ep]
    if fmt == "euroc":
        rp, ep = os.path.join(d, "data.csv"), os.path.join(d, "est.txt")
        ns = [int(round(t * 1e9)) for t in Tr]
        open(rp, "w").write(rm.write_euroc(ns, Pr, Qr, extra_cols=9))
        open(ep, "w").write(rm.write_tum(Te, Pe, Qe))
        return ["euroc", rp, ep]
    if fmt == "bag":
        # one ROS1 bag with both topics, written with evo's own writer (C06 decides that writer/reader pair)
        from rosbags.rosbag1 import Writer
        from evo.core.trajectory import PoseTrajectory3D
        from evo.tools import file_interface
        bp = os.path.join(d, "in.bag")
        w = Writer(bp)
        w.open()
        try:
            file_interface.write_bag_trajectory(w, PoseTrajectory3D(positions_xyz=np.array(Pr), orientations_quat_wxyz=np.array(Qr), timestamps=np.array(Tr)), "/gt_pose", "map")
            file_interface.write_bag_trajectory(w, PoseTrajectory3D(positions_xyz=np.array(Pe), orientations_quat_wxyz=np.array(Qe), timestamps=np.array(Te)), "/est_pose", "odom")
        finally:
            w.close()
        return ["bag", bp, "/gt_pose", "/est_pose"]
    if fmt == "kitti":
        rp, ep = os.path.join(d, "ref.kitti"), os.path.join(d, "est.kitti")
        open(rp, "w").write(rm.write_kitti(rm.poses_from(Pr, Qr)))
        open(ep, "w").write(rm.write_kitti(rm.poses_from(Pe, Qe)))
        return ["kitti", rp, ep]
    raise ValueError(fmt)


def evo_downsample_ids(n, N):
    from evo.core.trajectory import PosePath3D
    from vf.checks.c11 import check_downsample_ids
    k = np.arange(n, dtype=float)
    o = PosePath3D(positions_xyz=np.column_stack([k, k, k]), orientations_quat_wxyz=np.tile([1.0, 0, 0, 0], (n, 1)))
    o.downsample(N)
    ids = [int(v) for v in o.positions_xyz[:, 0]]
    check_downsample_ids(ids, n, N)
    return ids


def evo_motion_ids(P, Q, d, a_deg):
    from evo.core.trajectory import PosePath3D
    n = len(P)
    if n < 2:
        return None
    o = PosePath3D(positions_xyz=np.array(P), orientations_quat_wxyz=np.array(Q))
    ids = [int(v) for v in __import__("evo.core.filters", fromlist=["x"]).filter_by_motion(o.poses_se3, d, a_deg, True)]
    Rs = [rm.quat_to_R(q) for q in Q]
    steps = rm.step_lengths(P)
    try:
        pairsel.check_motion_filter(ids, np.asarray(P), Rs, d, math.radians(a_deg), 1e-9 * max(math.fsum(steps), d, 1.0), 1e-9)
    except Bad as b:
        raise Mismatch("motion filter inside the pipeline: " + b.msg, observed=b.clause, stage="motion_filter")
    return ids


def expected_pairs(Tr, Te, max_diff, offset):
    """exact association (ref first, est second); raises Skip for ambiguous situations"""
    fr = [Fraction(float(t)) for t in Tr]
    fe = [Fraction(float(t)) + Fraction(float(offset)) for t in Te]
    md = Fraction(float(max_diff))
    margin = Fraction(8 * rm.EPS * max(abs(float(Tr[-1])), abs(float(Te[-1])), abs(offset), 1.0))
    first_short = len(Tr) < len(Te)
    short, long_ = (fr, fe) if first_short else (fe, fr)
    claims = {}
    for s, ts in enumerate(short):
        d = [abs(ts - tl) for tl in long_]
        m = min(d)
        near = [j for j, v in enumerate(d) if v - m <= margin]
        if len(near) > 1:
            if m <= md + margin:
                raise Skip("association tie")
            continue
        if abs(m - md) <= margin and margin > 0 and m != md:
            raise Skip("association boundary")
        if m <= md:
            claims.setdefault(near[0], []).append((m, s))
    pairs = []
    for l, cl in claims.items():
        if len(cl) > 1:
            raise Skip("contested counterpart")
        pairs.append((cl[0][1], l))
    pairs.sort()
    if first_short:
        return [(s, l) for s, l in pairs]
    return sorted((l, s) for s, l in pairs)


def base_argv(case, files, out_zip, cfg):
    o = case["opts"]
    argv = list(files)
    argv += ["--pose_relation", o["relation"]]
    if o.get("align"):
        argv.append("--align")
    if o.get("correct_scale"):
        argv.append("--correct_scale")
    if o.get("n_to_align", -1) != -1:
        argv += ["--n_to_align", str(o["n_to_align"])]
    if o.get("align_origin"):
        argv.append("--align_origin")
    if o.get("downsample"):
        argv += ["--downsample", str(o["downsample"])]
    if o.get("motion_filter") and files[0] != "kitti":
        argv += ["--motion_filter", repr(float(o["motion_filter"][0])), repr(float(o["motion_filter"][1]))]
    if files[0] != "kitti":
        argv += ["--t_max_diff", repr(float(o["t_max_diff"]))]
        if o.get("t_offset"):
            argv += ["--t_offset", repr(float(o["t_offset"]))]
        if o.get("t_start") is not None:
            argv += ["--t_start", repr(float(o["t_start"]))]
        if o.get("t_end") is not None:
            argv += ["--t_end", repr(float(o["t_end"]))]
    if o.get("project"):
        argv += ["--project_to_plane", o["project"]]
    if o.get("change_unit"):
        argv += ["--change_unit", o["change_unit"]]
    if o.get("plot"):
        # plotting happens before the result is saved: whatever the plot code does, the saved result must stay the same
        pl = o["plot"]
        # (a serialised plot cannot hold the tick formatter of a non-metre length unit - evo fails to pickle it, which is
        # none of the listed properties: such cases save an image instead)
        argv += (["--save_plot", out_zip[:-4] + ".png"] if pl.get("len_unit") else ["--serialize_plot", out_zip[:-4] + ".plot"])
        argv += ["--plot_x_dimension", pl["x"], "--plot_mode", pl["mode"]]
        if pl.get("pct") is not None:
            argv += ["--plot_colormap_max_percentile", str(pl["pct"])]
        if pl.get("cmin") is not None:
            argv += ["--plot_colormap_min", repr(float(pl["cmin"]))]
    argv += ["--save_results", out_zip, "--no_warnings", "--silent", "-c", cfg]
    return argv


def process_reference(case, fmt, ref, est):
    """the documented selection chain up to association; returns (ref_ids, est_ids) into the input files or 'refused'"""
    o = case["opts"]
    Tr, Pr, Qr = ref
    Te, Pe, Qe = est
    rid = list(range(len(Pr)))
    eid = list(range(len(Pe)))
    if o.get("downsample"):
        N = int(o["downsample"])
        rid = [rid[i] for i in evo_downsample_ids(len(rid), N)] if len(rid) > N else rid
        eid = [eid[i] for i in evo_downsample_ids(len(eid), N)] if len(eid) > N else eid
    if o.get("motion_filter") and fmt != "kitti":
        d, a = float(o["motion_filter"][0]), float(o["motion_filter"][1])
        if len(rid) < 2 or len(eid) < 2:
            return "refused"
        rid = [rid[i] for i in evo_motion_ids(Pr[rid], Qr[rid], d, a)]
        eid = [eid[i] for i in evo_motion_ids(Pe[eid], Qe[eid], d, a)]
    if fmt == "kitti":
        if len(rid) != len(eid):
            return "refused"
        return rid, eid
    ts, te = o.get("t_start"), o.get("t_end")
    if ts or te:
        lo = Tr[rid[0]] if not ts else ts
        hi = Tr[rid[-1]] if not te else te
        if lo > hi:
            return "refused"
        rid = [i for i in rid if lo <= Tr[i] <= hi]
        if not rid:
            return "refused"
    pairs = expected_pairs(Tr[rid], Te[eid], float(o["t_max_diff"]), float(o.get("t_offset", 0.0)))
    if not pairs:
        return "refused"
    return [rid[a] for a, b in pairs], [eid[b] for a, b in pairs]


def check_alignment_stage(case, arch, ref, est, rsel, esel, stage_tag, stored_idx=None):
    """stored_idx: indices into (rsel, esel) of the poses that are stored (RPE keeps [0] + pair ends); None = all"""
    full_rsel, full_esel = list(rsel), list(esel)
    if stored_idx is not None:
        rsel = [rsel[i] for i in stored_idx]
        esel = [esel[i] for i in stored_idx]
    return _check_alignment_stage(case, arch, ref, est, rsel, esel, stage_tag, full_rsel, full_esel)


def _check_alignment_stage(case, arch, ref, est, rsel, esel, stage_tag, full_rsel, full_esel):
    """stored trajectories vs inputs: reference untouched up to projection, estimate = recorded matrix applied, fit optimal"""
    from vf.checks.c03 import cost_ld, noise_floor
    o = case["opts"]
    Tr, Pr, Qr = ref
    Te, Pe, Qe = est
    sref = arch["trajs"].get("ref") or arch["trajs"].get("data")
    sest = arch["trajs"]["est"]
    n = len(rsel)
    if len(sref["P"]) != n or len(sest["P"]) != n:
        raise Mismatch("stored trajectories have %d / %d poses, the processing chain keeps %d pairs" % (len(sref["P"]), len(sest["P"]), n),
                       observed="pair_count", stage=stage_tag)
    if sref["T"] is not None:
        if not np.array_equal(sref["T"], Tr[rsel]) or not np.array_equal(sest["T"], Te[esel]):
            raise Mismatch("stored trajectories hold other poses than the documented filtering/association selects:\nref stamps %s\nexpected   %s\nest stamps %s\nexpected   %s" % (
                sref["T"][:8].tolist(), Tr[rsel][:8].tolist(), sest["T"][:8].tolist(), Te[esel][:8].tolist()), observed="pair_selection", stage=stage_tag)
    plane = o.get("project")
    nd = PLANE_NULL.get(plane)
    keep = [i for i in range(3) if i != nd]
    # reference: only projected
    Pref_exp = Pr[rsel]
    if not np.array_equal(sref["P"][:, keep], Pref_exp[:, keep]) or (plane and np.any(sref["P"][:, nd] != 0.0)) or (not plane and not np.array_equal(sref["P"], Pref_exp)):
        raise Mismatch("stored reference positions are not the (projected) input positions of the selected poses", observed="reference_changed", stage=stage_tag)
    any_align = o.get("align") or o.get("correct_scale") or o.get("align_origin")
    key = "alignment_transformation_sim3"
    Pe_sel = Pe[esel]
    if any_align:
        if key not in arch["arrays"]:
            raise Mismatch("no alignment matrix in the archive", observed="missing_matrix", stage=stage_tag)
        A = np.asarray(arch["arrays"][key], dtype=float)
    else:
        if key in arch["arrays"]:
            raise Mismatch("alignment matrix stored although nothing was aligned", observed="spurious_matrix", stage=stage_tag)
        A = np.eye(4)
    s = float(np.cbrt(np.linalg.det(A[:3, :3])))
    if not (s > 0) or rm.orthonormality_defect(A[:3, :3] / s) > 1e-8:
        raise Mismatch("stored alignment matrix is not a similarity", observed="matrix_invalid", stage=stage_tag)
    mapped = (A[:3, :3] @ Pe_sel.T).T + A[:3, 3]
    coords = max(float(np.abs(Pe_sel).max()) * max(1.0, s), float(np.abs(mapped).max()), float(np.abs(Pr).max()), 1.0)
    tol = 4096 * rm.EPS * coords
    exp = mapped.copy()
    if plane:
        exp[:, nd] = 0.0
    dev = float(np.abs(sest["P"] - exp).max())
    if dev > tol:
        raise Mismatch("stored estimate positions are not the %sinput positions moved by the stored alignment matrix (max deviation %.3e, tol %.3e); options %s" % (
            "projected " if plane else "", dev, tol, {k: v for k, v in o.items() if v}), observed="estimate_positions", stage=stage_tag)
    # orientations
    Rot = A[:3, :3] / s
    for k in range(n):
        Re = sest["poses"][k][:3, :3]
        Rin = Rot @ rm.quat_to_R(Qe[esel[k]])
        Rr_in = rm.quat_to_R(Qr[rsel[k]])
        Rr = sref["poses"][k][:3, :3]
        if plane:
            ax = np.zeros(3)
            ax[nd] = 1.0
            for R, nm in ((Re, "estimate"), (Rr, "reference")):
                if float(np.abs(R @ ax - ax).max()) > 1e-9:
                    raise Mismatch("stored %s orientation %d is not a rotation about the %s-plane normal" % (nm, k, plane), observed="not_projected", stage=stage_tag)
        else:
            if float(np.abs(Re - Rin).max()) > 1e-8:
                raise Mismatch("stored estimate orientation %d is not R_align * R_input" % k, observed="estimate_orientation", stage=stage_tag)
            if float(np.abs(Rr - Rr_in).max()) > 1e-9:
                raise Mismatch("stored reference orientation %d changed" % k, observed="reference_changed", stage=stage_tag)
    # what kind of transformation, and is it the least-squares one
    if o.get("align") or o.get("correct_scale"):
        nn = int(o.get("n_to_align", -1))
        nfull = len(full_rsel)
        used = nfull if nn == -1 else min(nn, nfull)
        x = Pe[full_esel][:used].T
        y = Pr[full_rsel][:used].T
        if o.get("align_origin"):
            pass  # origin alignment afterwards replaces the rigid part: only the scale can be judged
        elif o.get("align"):
            ws = bool(o.get("correct_scale"))
            if not ws and abs(s - 1.0) > 1e-9:
                raise Mismatch("rigid alignment stored a scale %r" % s, observed="scale_not_one", stage=stage_tag)
            Rh, th, ch, gap = rm.horn(x, y, ws)
            got = cost_ld(x, y, Rot, A[:3, 3], s)
            best = cost_ld(x, y, Rh, th, ch)
            yc = y - y.mean(axis=1, keepdims=True)
            if got > best + 1e-8 * float(np.sum(yc * yc)) + 4 * noise_floor(x, y, s, got):
                raise Mismatch("stored alignment is not the least-squares fit over the first %d pairs (sse %.9e vs optimum %.9e)" % (used, got, best),
                               observed="not_optimal", stage=stage_tag)
        else:
            # scale only
            if float(np.abs(Rot - np.eye(3)).max()) > 1e-9 or float(np.abs(A[:3, 3]).max()) > tol:
                raise Mismatch("scale-only correction stored a rotation/translation", observed="scale_only", stage=stage_tag)
            Rh, th, ch, gap = rm.horn(x, y, True)
            if abs(s - ch) > 1e-6 * max(ch, 1e-12) and gap > 1e-6:
                raise Mismatch("scale correction factor %r, least-squares scale is %r" % (s, ch), observed="scale_value", stage=stage_tag)
    if o.get("align_origin") and not plane:
        if float(np.abs(sest["P"][0] - Pr[rsel[0]]).max()) > tol or float(np.abs(sest["poses"][0][:3, :3] - rm.quat_to_R(Qr[rsel[0]])).max()) > 1e-8:
            raise Mismatch("origin alignment: first stored estimate pose is not the reference's first pose", observed="origin", stage=stage_tag)
    return sref, sest


def write_cfg(d, extra=None):
    cfg = {"save_traj_in_zip": True}
    if extra:
        cfg.update(extra)
    p = os.path.join(d, "cfg.json")
    with open(p, "w") as f:
        json.dump(cfg, f)
    return p
