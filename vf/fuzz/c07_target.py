"""Byte-level differential fuzz target for the TUM / KITTI / EuRoC readers (C07).

bytes -> (format, path|handle, BOM?) + UTF-8 text.  The strict reference grammar classifies the text as WELL-FORMED,
MALFORMED or GREY; the target asserts: WELL-FORMED => evo loads exactly the reference's numbers in the right slots;
MALFORMED => FileInterfaceException and nothing else; GREY => not judged.

Run under atheris:   python -m vf.fuzz.c07_target -runs=N -seed=S -artifact_prefix=DIR/ CORPUS_DIR
Replay one input:    vf.fuzz.c07_target.check_bytes(data)   (raises Disagreement)
"""
import io
import os
import sys
import tempfile

import numpy as np

FORMATS = ("tum", "kitti", "euroc")


class Disagreement(Exception):
    def __init__(self, msg, tags):
        super().__init__(msg)
        self.msg = msg
        self.tags = tags


def classify(text, fmt):
    """returns ('ok', rows) | ('bad', reason) | ('grey', reason)"""
    from vf import refmodel as rm
    delim = "," if fmt == "euroc" else " "
    if "\x00" in text or '"' in text:
        return ("grey", "nul_or_quote")
    t = text.replace("\r\n", "\n")
    if "\r" in t:
        return ("grey", "bare_cr")
    for ch in ("\x0b", "\x0c", "\x1c", "\x1d", "\x1e", "\x85", " ", " "):
        if ch in t:
            return ("grey", "exotic_separator")
    lines = t.split("\n")
    if lines and lines[-1] == "":
        lines.pop()
    rows = []
    grey = None
    for ln in lines:
        if ln.startswith("#"):
            continue
        toks = ln.split(delim)
        vals = []
        for tk in toks:
            if rm.is_strict_decimal(tk):
                vals.append(float(tk))
                continue
            try:
                float(tk)
            except ValueError:
                return ("bad", "token")
            grey = "lenient_float_token"
            vals.append(None)
        rows.append(vals)
    if not rows:
        return ("bad", "no_rows")
    ncol = {"tum": 8, "kitti": 12}.get(fmt)
    for r in rows:
        if ncol is not None and len(r) != ncol:
            return ("bad", "columns")
        if fmt == "euroc" and (len(r) < 8 or len(r) != len(rows[0])):
            return ("bad", "columns")
    if grey:
        return ("grey", grey)
    return ("ok", rows)


def _load(fmt, text, via, bom):
    from evo.tools import file_interface
    reader = {"tum": file_interface.read_tum_trajectory_file, "kitti": file_interface.read_kitti_poses_file,
              "euroc": file_interface.read_euroc_csv_trajectory}[fmt]
    if via == "handle":
        return reader(io.StringIO(text))
    d = tempfile.mkdtemp(prefix="c07f_")
    p = os.path.join(d, "f.txt")
    try:
        with open(p, "wb") as f:
            f.write((b"\xef\xbb\xbf" if bom else b"") + text.encode("utf-8"))
        return reader(p)
    finally:
        try:
            os.remove(p)
            os.rmdir(d)
        except OSError:
            pass


def check_bytes(data):
    from evo.tools.file_interface import FileInterfaceException
    if len(data) < 2 or len(data) > 4096:
        return "skip"
    sel = data[0]
    fmt = FORMATS[sel % 3]
    via = "handle" if (sel // 3) % 2 else "path"
    bom = bool((sel // 6) % 2) and via == "path"
    try:
        text = data[1:].decode("utf-8")
    except UnicodeDecodeError:
        return "skip"
    if text.startswith("﻿"):
        return "skip"
    kind, info = classify(text, fmt)
    if kind == "grey":
        return "grey"
    try:
        obj = _load(fmt, text, via, bom)
        loaded = True
    except FileInterfaceException:
        loaded = False
    tags = {"fmt": fmt, "via": via, "classification": kind if kind != "bad" else "bad:" + info}
    if kind == "bad":
        if loaded:
            raise Disagreement("malformed %s file (%s) was loaded via %s: %r" % (fmt, info, via, text[:200]), dict(tags, observed="malformed_accepted"))
        return "bad"
    rows = np.array(info, dtype=float)
    if not loaded:
        raise Disagreement("well-formed %s file was rejected via %s: %r" % (fmt, via, text[:200]), dict(tags, observed="wellformed_rejected"))
    n = len(rows)
    if obj.num_poses != n:
        raise Disagreement("%s: %d rows loaded as %d poses" % (fmt, n, obj.num_poses), dict(tags, observed="row_count"))

    def same(a, b):
        a = np.asarray(a, dtype=float)
        b = np.asarray(b, dtype=float)
        return a.shape == b.shape and np.array_equal(a, b, equal_nan=True)
    if fmt == "tum":
        ok = same(obj.timestamps, rows[:, 0]) and same(obj.positions_xyz, rows[:, 1:4]) and \
            same(obj.orientations_quat_wxyz, np.column_stack([rows[:, 7], rows[:, 4], rows[:, 5], rows[:, 6]]))
    elif fmt == "euroc":
        ok = same(obj.positions_xyz, rows[:, 1:4]) and same(obj.orientations_quat_wxyz, rows[:, 4:8]) and \
            bool(np.all(np.abs(np.asarray(obj.timestamps) - rows[:, 0] / 1e9) <= 2 * np.spacing(np.abs(rows[:, 0] / 1e9)) + 0.0) or not np.all(np.isfinite(rows[:, 0])))
    else:
        M = np.array([np.asarray(p)[:3, :].reshape(-1) for p in obj.poses_se3])
        ok = same(M, rows)
    if not ok:
        raise Disagreement("%s via %s: loaded numbers differ from the file's numbers / slots: %r" % (fmt, via, text[:200]), dict(tags, observed="values"))
    return "ok"


def main():
    repo = os.environ.get("VF_REPO", "/repo")
    here = os.path.dirname(os.path.dirname(os.path.dirname(os.path.abspath(__file__))))
    for p in (here, repo):
        if p in sys.path:
            sys.path.remove(p)
    sys.path.insert(0, here)
    sys.path.insert(0, repo)
    import atheris
    with atheris.instrument_imports(include=["evo.tools.file_interface"]):
        import evo.tools.file_interface  # noqa
    import vf.refmodel  # noqa

    def one(data):
        check_bytes(bytes(data))

    atheris.Setup(sys.argv, one)
    atheris.Fuzz()


if __name__ == "__main__":
    main()
