"""Runner: tiers, seeds, sharding over cores, evidence, replay files, KNOWN-FINDING / VIOLATION protocol.

Usage (cwd = /verif):  ./check <ID> [--tier quick|thorough] [--replay FILE] [--sub NAME] [--scale F]

Exit codes: 0 property held on everything explored (known findings are printed, not failed);
            1 at least one VIOLATION line printed;  2 HARNESS-ERROR (machinery broken).
"""
import argparse
import atexit
import hashlib
import importlib
import json
import multiprocessing
import os
import shutil
import sys
import tempfile
import time
import traceback

VERIF = os.path.dirname(os.path.dirname(os.path.abspath(__file__)))
REPO = os.environ.get("VF_REPO", "/repo")


def _prepare_environment():
    """Must run before evo is imported anywhere."""
    scratch = tempfile.mkdtemp(prefix="vf_home_")
    os.environ["HOME"] = scratch
    os.environ["VF_SCRATCH"] = scratch
    os.environ.setdefault("MPLBACKEND", "Agg")
    os.environ["MPLCONFIGDIR"] = os.path.join(scratch, "mpl")
    os.makedirs(os.environ["MPLCONFIGDIR"], exist_ok=True)
    for v in ("OPENBLAS_NUM_THREADS", "OMP_NUM_THREADS", "MKL_NUM_THREADS"):
        os.environ.setdefault(v, "1")
    parent = os.getpid()

    def _cleanup():
        if os.getpid() == parent:
            shutil.rmtree(scratch, ignore_errors=True)

    atexit.register(_cleanup)
    # the code under test is /repo's working tree (or VF_REPO), never an installed copy
    sys.path[:] = [p for p in sys.path if os.path.abspath(p or ".") not in (REPO, VERIF)]
    sys.path.insert(0, VERIF)
    sys.path.insert(0, REPO)
    deps = os.path.join(VERIF, ".deps")
    if os.path.isdir(deps):
        sys.path.append(deps)
    # evo logs warnings; without configured handlers they would go to stderr through logging.lastResort
    import logging
    logging.lastResort = logging.NullHandler()
    # first import writes ~/.evo/settings.json and announces it on stdout: keep our stdout clean
    import contextlib
    import io
    with contextlib.redirect_stdout(io.StringIO()):
        import evo.tools.settings  # noqa
    return scratch


def derive_seed(*parts):
    h = hashlib.sha256("/".join(str(p) for p in parts).encode()).digest()
    return int.from_bytes(h[:8], "big")


def _is_from_repo(exc):
    tb = exc.__traceback__
    repo_evo = os.path.join(os.path.realpath(REPO), "evo") + os.sep
    inner = None
    while tb is not None:
        fn = os.path.realpath(tb.tb_frame.f_code.co_filename)
        if fn.startswith(repo_evo):
            inner = (os.path.relpath(fn, os.path.realpath(REPO)), tb.tb_frame.f_code.co_name)
        tb = tb.tb_next
    return inner


def execute_case(prop, sub, case, report, counting=True):
    """Run one case through a sub-check. Returns None, or a violation dict."""
    from vf.core import Mismatch, Skip, case_hash, HarnessError
    from vf import findings
    label = None
    # process-wide numeric state a previous case may have left behind (numpy error handling) is reset: every case is judged
    # from the default state, and a check that wants to see such a leak exercises the history inside one case
    import numpy as _np
    _np.seterr(divide="warn", over="warn", under="ignore", invalid="warn")
    # the command line tools run the library with the evo logger at DEBUG (log.configure_logging), plain library use leaves it
    # at WARNING: both states are exercised, chosen by the case itself (so that a replay sees the same state)
    import logging as _logging
    import zlib as _zlib
    from vf.core import canon as _canon
    _lg = _logging.getLogger("evo")
    _lg.propagate = False
    try:
        _lg.setLevel(_logging.DEBUG if (_zlib.crc32(_canon(case).encode("utf-8")) & 1) else _logging.WARNING)
    except Exception:  # noqa
        _lg.setLevel(_logging.WARNING)
    try:
        label = sub.fn(case)
    except Skip as s:
        report.skip("%s:%s" % (sub.name, s.reason))
        return None
    except Mismatch as m:
        kf = findings.match(prop, sub.name, m.tags)
        if kf:
            report.known[kf] = report.known.get(kf, 0) + 1
            return None
        return {"sub": sub.name, "case": case, "message": m.msg, "tags": m.tags}
    except (KeyboardInterrupt, SystemExit, MemoryError):
        raise
    except Exception as e:  # noqa
        inner = _is_from_repo(e)
        if inner is None:
            if isinstance(e, (KeyError, IndexError, ValueError, TypeError, AttributeError, ZeroDivisionError)) and not isinstance(e, HarnessError):
                # the check could not even interpret what evo handed back (a missing statistic or array, a wrong shape or
                # type): on the unchanged tree this never happens (it would show in every run); it is reported as what it is
                tb = traceback.extract_tb(e.__traceback__)
                where = "%s:%d" % (os.path.basename(tb[-1].filename), tb[-1].lineno) if tb else "?"
                return {"sub": sub.name, "case": case,
                        "message": "evo's output could not be interpreted by the check (%s at %s: %s) - missing/malformed key, array or value" % (
                            type(e).__name__, where, str(e)[:200]),
                        "tags": {"observed": "malformed_output", "exc_type": type(e).__name__}}
            raise
        tags = {"observed": "unexpected_exception", "exc_type": type(e).__name__,
                "evo_file": inner[0], "evo_func": inner[1]}
        kf = findings.match(prop, sub.name, tags)
        if kf:
            report.known[kf] = report.known.get(kf, 0) + 1
            return None
        return {"sub": sub.name, "case": case,
                "message": "unexpected %s escaped evo (%s:%s): %s" % (
                    type(e).__name__, inner[0], inner[1], str(e)[:300]),
                "tags": tags}
    finally:
        pass
    if counting:
        if isinstance(label, str) and sub.classify is None:
            lab = label
        else:
            lab = sub.classify(case) if sub.classify else None
        try:
            nt = bool(sub.nontrivial(case))
        except Exception:
            nt = False
        report.count(sub.name, case, lab, nt)
    return None


def _run_hyp_unit(prop, sub, n, seed_int, tier):
    import hypothesis
    from hypothesis import given, settings, HealthCheck, Phase, Verbosity
    from vf.core import Report
    rep = Report()
    state = {"viol": None, "first_fail_t": None, "gave_up": False}
    max_shrink = sub.max_shrink_s or (45.0 if tier == "quick" else 240.0)

    class _Fail(Exception):
        pass

    def body(case):
        shrinking = state["viol"] is not None
        if shrinking:
            rep.shrink_evaluations += 1
            if time.time() - state["first_fail_t"] > max_shrink:
                state["gave_up"] = True
                return
        v = execute_case(prop, sub, case, rep, counting=not shrinking)
        if v is not None:
            if state["first_fail_t"] is None:
                state["first_fail_t"] = time.time()
            state["viol"] = v
            raise _Fail()

    test = given(sub.strategy)(body)
    test = settings(max_examples=n, database=None, deadline=None, derandomize=False,
                    report_multiple_bugs=False, suppress_health_check=list(HealthCheck),
                    phases=[Phase.generate, Phase.shrink], verbosity=Verbosity.quiet)(test)
    test = hypothesis.seed(seed_int)(test)
    try:
        test()
    except _Fail:
        pass
    except Exception as e:  # noqa
        if state["viol"] is None:
            # Hypothesis errors (Unsatisfiable, ...) or harness bugs
            rep.harness_errors.append("%s: %s\n%s" % (sub.name, repr(e), traceback.format_exc()[-3000:]))
        # Flaky after the shrink budget ran out etc.: the last failing case stands
    if state["viol"] is not None:
        v = dict(state["viol"])
        v["seed"] = seed_int
        v["shrink_gave_up"] = state["gave_up"]
        rep.violations.append(v)
    return rep


def _run_machine_unit(prop, sub, n, seed_int, tier):
    import hypothesis
    from hypothesis import settings, HealthCheck, Phase, Verbosity
    from hypothesis.stateful import run_state_machine_as_test
    from vf.core import Report
    rep = Report()
    Machine = sub.state_machine
    Machine.vf_reset(prop, sub, rep)
    st = settings(max_examples=n, stateful_step_count=sub.steps, database=None, deadline=None,
                  derandomize=False, report_multiple_bugs=False,
                  suppress_health_check=list(HealthCheck),
                  phases=[Phase.generate, Phase.shrink], verbosity=Verbosity.quiet)
    try:
        run_state_machine_as_test(hypothesis.seed(seed_int)(Machine), settings=st)
    except Exception as e:  # noqa
        if Machine.vf_violation is None:
            rep.harness_errors.append("%s: %s\n%s" % (sub.name, repr(e), traceback.format_exc()[-3000:]))
    if Machine.vf_violation is not None:
        v = dict(Machine.vf_violation)
        v["seed"] = seed_int
        rep.violations.append(v)
    return rep


def _run_enum_unit(prop, sub, shard, nshards, tier):
    from vf.core import Report
    rep = Report()
    seen_fail = False
    for idx, case in enumerate(sub.enum(tier)):
        if idx % nshards != shard:
            continue
        v = execute_case(prop, sub, case, rep)
        if v is not None and not seen_fail:
            seen_fail = True
            rep.violations.append(v)
            break  # first failure of this shard is enough; the parent keeps the smallest
    rep.exhaustive[sub.name] = (tier in sub.exhaustive_tiers) and not seen_fail
    return rep


def _unit(args):
    prop, modname, subname, kind, shard, nshards, n, seed_int, tier = args
    from vf.core import Report
    try:
        from vf import cover
        cover.enable()
        mod = importlib.import_module(modname)
        sub = [s for s in mod.SUBS if s.name == subname][0]
        # private scratch cwd per unit so that relative writes never collide
        d = tempfile.mkdtemp(prefix="vf_unit_", dir=os.environ["VF_SCRATCH"])
        os.chdir(d)
        # evo prints progress to stdout in places; only the parent talks
        sys.stdout = open(os.devnull, "w")
        t0 = time.time()
        if kind == "hyp":
            rep = _run_hyp_unit(prop, sub, n, seed_int, tier)
        elif kind == "machine":
            rep = _run_machine_unit(prop, sub, n, seed_int, tier)
        elif kind == "enum":
            rep = _run_enum_unit(prop, sub, shard, nshards, tier)
        elif kind == "custom":
            rep = sub.custom({"tier": tier, "seed": seed_int, "shard": shard, "nshards": nshards,
                              "n": n, "prop": prop, "sub": sub})
        else:
            raise RuntimeError("unknown kind " + kind)
        rep.notes.append("%s[%d/%d] %.1fs" % (subname, shard, nshards, time.time() - t0))
        os.chdir(VERIF)
        shutil.rmtree(d, ignore_errors=True)
        cover.dump(prop)
        return rep
    except BaseException as e:  # noqa
        rep = Report()
        rep.harness_errors.append("%s: %r\n%s" % (subname, e, traceback.format_exc()[-4000:]))
        return rep


def replay_corpus(prop, mod, report):
    d = os.path.join(VERIF, "corpus", prop)
    if not os.path.isdir(d):
        return
    subs = {s.name: s for s in mod.SUBS}
    for fn in sorted(os.listdir(d)):
        if not fn.endswith(".json"):
            continue
        with open(os.path.join(d, fn)) as f:
            item = json.load(f)
        sub = subs.get(item["sub"])
        if sub is None or sub.fn is None:
            continue
        # cases write their scratch files relative to the working directory: never into /verif
        _cwd = os.getcwd()
        _tmp = tempfile.mkdtemp(prefix="vf_replay_", dir=os.environ.get("VF_SCRATCH"))
        os.chdir(_tmp)
        try:
            v = execute_case(prop, sub, item["case"], report)
        finally:
            os.chdir(_cwd)
            shutil.rmtree(_tmp, ignore_errors=True)
        if v is not None:
            v["from_corpus"] = fn
            report.violations.append(v)


def write_replay(prop, v, tier, seed):
    from vf.core import canon
    d = os.path.join(VERIF, "replays", prop)
    os.makedirs(d, exist_ok=True)
    body = {"property": prop, "sub": v["sub"], "case": v["case"], "message": v["message"],
            "tags": v.get("tags", {}), "tier": tier, "verif_seed": seed,
            "unit_seed": v.get("seed")}
    name = hashlib.sha1(canon({"sub": v["sub"], "case": v["case"]}).encode()).hexdigest()[:12]
    path = os.path.join(d, "%s-%s.json" % (v["sub"], name))
    from vf.core import _default
    with open(path, "w") as f:
        # insertion order of dict keys is preserved on purpose (a case may depend on it)
        f.write(json.dumps(body, default=_default))
    return os.path.relpath(path, VERIF)


def main(argv=None):
    ap = argparse.ArgumentParser()
    ap.add_argument("prop")
    ap.add_argument("--tier", default=os.environ.get("VERIF_TIER") or "quick", choices=["quick", "thorough"])
    ap.add_argument("--replay")
    ap.add_argument("--sub", action="append")
    ap.add_argument("--scale", type=float, default=float(os.environ.get("VF_SCALE", "1")))
    ap.add_argument("--jobs", type=int, default=int(os.environ.get("VF_JOBS", "16")))
    ap.add_argument("--no-evidence", action="store_true")
    args = ap.parse_args(argv)
    prop = args.prop.upper()
    try:
        seed = int(os.environ.get("VERIF_SEED", "1") or "1")
    except ValueError:
        seed = 1
    t0 = time.time()
    try:
        _prepare_environment()
        from vf.core import Report, canon
        from vf import findings
        findings.load()
        modname = "vf.checks.%s" % prop.lower()
        mod = importlib.import_module(modname)
    except BaseException as e:  # noqa
        inner = _is_from_repo(e) if isinstance(e, Exception) else None
        if prop == "C19" and inner is not None and inner[0].endswith("settings.py"):
            # the very first evo start on a fresh home directory (the harness's own) failed while initialising / loading the
            # settings: that is the property itself, observed before any generated case could run
            case = {"scenario": "first_start", "params": {}}
            path = write_replay(prop, {"sub": "crash", "case": case, "message": "first start on a fresh home directory fails: %r" % (e,),
                                       "tags": {"observed": "next_start_fails", "scenario": "first_start", "op": "no_fault"}}, args.tier, seed)
            print("violation detail: sub=crash the first evo start on a fresh home directory fails in %s:%s: %r" % (inner[0], inner[1], e))
            print("VIOLATION property=%s replay=%s" % (prop, path))
            return 1
        print("HARNESS-ERROR property=%s %r" % (prop, e))
        traceback.print_exc()
        return 2

    if args.replay:
        with open(args.replay) as f:
            item = json.load(f)
        sub = [s for s in mod.SUBS if s.name == item["sub"]][0]
        rep = Report()
        replay_path = os.path.abspath(args.replay)
        _tmp = tempfile.mkdtemp(prefix="vf_replay_", dir=os.environ.get("VF_SCRATCH"))
        os.chdir(_tmp)
        try:
            v = execute_case(prop, sub, item["case"], rep)
        except BaseException as e:  # noqa
            os.chdir(VERIF)
            print("HARNESS-ERROR property=%s replay raised %r" % (prop, e))
            traceback.print_exc()
            return 2
        os.chdir(VERIF)
        shutil.rmtree(_tmp, ignore_errors=True)
        for kid in rep.known:
            print("KNOWN-FINDING: property=%s %s (%s)" % (prop, findings.by_id(kid)["what"], kid))
        if v is not None:
            print("replay: %s: %s" % (v["sub"], v["message"]))
            print("VIOLATION property=%s replay=%s" % (prop, args.replay))
            return 1
        print("replay: case passes")
        return 0

    total = Report()
    try:
        replay_corpus(prop, mod, total)
    except BaseException as e:  # noqa
        print("HARNESS-ERROR property=%s corpus replay raised %r" % (prop, e))
        traceback.print_exc()
        return 2

    units = []
    for sub in mod.SUBS:
        if args.sub and sub.name not in args.sub:
            continue
        n = sub.n_quick if args.tier == "quick" else sub.n_thorough
        n = max(1, int(n * args.scale)) if n else 0
        shards = sub.shards_quick if args.tier == "quick" else sub.shards_thorough
        kind = sub.kind
        if kind in ("hyp", "machine"):
            if n <= 0:
                continue
            shards = max(1, min(shards, n))
            per = [n // shards + (1 if i < n % shards else 0) for i in range(shards)]
            for i in range(shards):
                units.append((prop, modname, sub.name, kind, i, shards, per[i],
                              derive_seed(seed, prop, sub.name, i), args.tier))
        else:
            for i in range(shards):
                units.append((prop, modname, sub.name, kind, i, shards, n,
                              derive_seed(seed, prop, sub.name, i), args.tier))
    jobs = max(1, min(args.jobs, len(units)))
    if jobs == 1:
        reports = [_unit(u) for u in units]
    else:
        ctx = multiprocessing.get_context("fork")
        with ctx.Pool(jobs, maxtasksperchild=1) as pool:
            reports = pool.map(_unit, units, chunksize=1)
    for r in reports:
        total.merge(r)

    # ---- verdicts
    exit_code = 0
    if total.harness_errors:
        for h in total.harness_errors:
            print("HARNESS-ERROR property=%s %s" % (prop, h))
        exit_code = 2
    for kid, cnt in sorted(total.known.items()):
        e = findings.by_id(kid)
        print("KNOWN-FINDING: property=%s %s (%s; %d matching cases this run)" % (prop, e["what"], kid, cnt))
    # one violation per sub-check bucket: the smallest case
    buckets = {}
    for v in total.violations:
        key = v["sub"]
        size = len(canon(v["case"]))
        if key not in buckets or size < buckets[key][0]:
            buckets[key] = (size, v)
    viol_paths = []
    for key in sorted(buckets):
        v = buckets[key][1]
        path = write_replay(prop, v, args.tier, seed)
        viol_paths.append(path)
        print("violation detail: sub=%s %s" % (v["sub"], v["message"][:1500]))
        print("VIOLATION property=%s replay=%s" % (prop, path))
        # a violation with its replay stands on its own, also when other units of the same run crashed the harness
        # (a broken tree can do both); harness errors alone exit 2
        exit_code = 1

    wall = time.time() - t0
    if not args.no_evidence and not args.sub:
        write_evidence(prop, mod, total, args.tier, seed, wall, len(buckets))
    print("%s tier=%s seed=%d evaluations=%d distinct_nontrivial=%d known=%s skipped=%d violations=%d wall=%.1fs" % (
        prop, args.tier, seed, total.evaluations, len(total.nontrivial) + total.nontrivial_extra, dict(total.known),
        sum(total.skipped.values()), len(buckets), wall))
    return exit_code


def write_evidence(prop, mod, total, tier, seed, wall, nviol):
    level = getattr(mod, "LEVEL", "exploration")
    samples = [{"class": k, "case": v} for k, v in sorted(total.samples.items())][:40]
    cov = {
        "evaluations": int(total.evaluations),
        "distinct_nontrivial": int(len(total.nontrivial) + total.nontrivial_extra),
        "rule": getattr(mod, "RULE", ""),
        "samples": samples,
        "class_histogram": dict(sorted(total.classes.items())),
        "per_subcheck_evaluations": dict(sorted(total.per_sub.items())),
        "shrink_evaluations": int(total.shrink_evaluations),
        "skipped_undecidable": dict(sorted(total.skipped.items())),
        "known_finding_hits": dict(sorted(total.known.items())),
        "exhaustive_subspaces": dict(sorted(total.exhaustive.items())),
        "exhaustive": bool(total.exhaustive) and all(total.exhaustive.values()) and set(total.exhaustive) == set(s.name for s in mod.SUBS),
        "unit_timings": total.notes[:200],
    }
    ev = {
        "property_id": prop, "tier": tier, "seed": int(seed), "level": level, "coverage": cov,
        "assumptions": list(getattr(mod, "ASSUMPTIONS", [])),
        "wall_s": round(wall, 2), "violations": int(nviol),
    }
    d = os.path.join(VERIF, "evidence")
    os.makedirs(d, exist_ok=True)
    with open(os.path.join(d, "%s.json" % prop), "w") as f:
        json.dump(ev, f, indent=1, sort_keys=True, default=str)
        f.write("\n")


if __name__ == "__main__":
    sys.exit(main())
