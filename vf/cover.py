"""Optional line-coverage audit of evo under the checks (VF_COVER=<dir>).

Not part of any decision: it answers "which lines of the anchored code did the
generated cases reach", so that generator blind spots show up.  Uses
sys.monitoring (3.12): each line event fires once and is then disabled, so the
overhead is small.  Every worker dumps its set after each unit; tools/cover_report.py
merges the dumps.
"""
import json
import os
import sys

_hits = set()
_enabled = False
TOOL = 3


def enable():
    global _enabled
    if _enabled or not os.environ.get("VF_COVER"):
        return
    mon = sys.monitoring
    root = os.path.realpath(os.environ.get("VF_REPO", "/repo")) + "/evo/"
    try:
        mon.use_tool_id(TOOL, "vfcover")
    except ValueError:
        pass

    def on_line(code, line):
        fn = code.co_filename
        if fn.startswith(root):
            _hits.add((fn[len(root):], line))
        return mon.DISABLE

    mon.register_callback(TOOL, mon.events.LINE, on_line)
    mon.set_events(TOOL, mon.events.LINE)
    _enabled = True


def dump(tag):
    if not _enabled:
        return
    d = os.environ["VF_COVER"]
    os.makedirs(d, exist_ok=True)
    p = os.path.join(d, "%s-%d.json" % (tag, os.getpid()))
    with open(p, "w") as f:
        json.dump(sorted(_hits), f)
