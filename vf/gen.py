"""Hypothesis strategies producing JSON-serialisable case fragments, and their realisers.

A *rotation descriptor* is {"q": [w,x,y,z]} (normalised by the realiser) or
{"axis": [a,b,c], "theta": th} (Rodrigues with the reference model) or {"quarter": [i,j,k]}
(product of exact quarter turns about x,y,z).
"""
import math

import numpy as np
from hypothesis import strategies as st

from vf import refmodel as rm

PI = math.pi
SPECIAL_THETAS = [0.0, 1e-16, 1e-12, 1e-9, 1e-6, 1e-3, PI / 2, PI - 1e-3, PI - 1e-6, PI - 1e-9,
                  PI - 1e-12, PI]

unit_f = st.floats(min_value=-1.0, max_value=1.0, allow_nan=False, width=64)


def fl(lo, hi):
    return st.floats(min_value=lo, max_value=hi, allow_nan=False, allow_infinity=False, width=64)


def log_uniform(lo_exp, hi_exp):
    """magnitude 10**e with e uniform, full mantissa"""
    return st.builds(lambda e, m: m * 10.0 ** e, st.integers(lo_exp, hi_exp - 1), fl(1.0, 10.0))


st_axis = st.one_of(
    st.sampled_from([[1.0, 0.0, 0.0], [0.0, 1.0, 0.0], [0.0, 0.0, 1.0], [-1.0, 0.0, 0.0],
                     [0.0, -1.0, 0.0], [0.0, 0.0, -1.0]]),
    st.lists(unit_f, min_size=3, max_size=3),
)

st_theta = st.one_of(st.sampled_from(SPECIAL_THETAS), fl(0.0, PI), fl(0.0, 1e-3), fl(PI - 1e-3, PI))

st_rot_quat = st.builds(lambda q: {"q": q}, st.lists(unit_f, min_size=4, max_size=4))
st_rot_axis = st.builds(lambda a, t: {"axis": a, "theta": t}, st_axis, st_theta)
st_rot_quarter = st.builds(lambda k: {"quarter": k}, st.lists(st.integers(0, 3), min_size=3, max_size=3))
st_rotation = st.one_of(st_rot_quat, st_rot_axis, st_rot_quarter)
st_rotation_generic = st_rot_quat


def unit_axis(a):
    a = np.asarray(a, dtype=float)
    n = float(np.linalg.norm(a))
    if n < 1e-6:
        return np.array([1.0, 0.0, 0.0])
    return a / n


_QX = np.array([[1.0, 0, 0], [0, 0, -1.0], [0, 1.0, 0]])
_QY = np.array([[0, 0, 1.0], [0, 1.0, 0], [-1.0, 0, 0]])
_QZ = np.array([[0, -1.0, 0], [1.0, 0, 0], [0, 0, 1.0]])


def rot_matrix(d):
    if "q" in d:
        q = np.asarray(d["q"], dtype=float)
        if float(np.linalg.norm(q)) < 1e-6:
            return np.eye(3)
        return rm.quat_to_R(q)
    if "axis" in d:
        return rm.rodrigues(unit_axis(d["axis"]) * float(d["theta"]))
    if "quarter" in d:
        R = np.eye(3)
        for M, k in zip((_QX, _QY, _QZ), d["quarter"]):
            for _ in range(int(k) % 4):
                R = R @ M
        return R
    raise ValueError(d)


def rot_quat(d):
    """descriptor -> unit quaternion wxyz (float64, |q| within 1 ulp of 1)"""
    if "q" in d:
        q = np.asarray(d["q"], dtype=float)
        n = float(np.linalg.norm(q))
        if n < 1e-6:
            return np.array([1.0, 0.0, 0.0, 0.0])
        return q / n
    return rm.R_to_quat(rot_matrix(d))


# ---- positions -----------------------------------------------------------------------------

OFFSETS = [[0.0, 0.0, 0.0], [4e5, 5.5e6, 0.0], [4.5e5, 5.4e6, 300.0], [-1e6, 1e6, 1e3]]


def st_points(min_n, max_n, exp_lo=-3, exp_hi=6):
    """{"pts": [[x,y,z],...] in [-1,1], "mag": 10**e * m, "off": index} -> off + mag*pts"""
    return st.fixed_dictionaries({
        "pts": st.lists(st.lists(unit_f, min_size=3, max_size=3), min_size=min_n, max_size=max_n),
        "mag": log_uniform(exp_lo, exp_hi),
        "off": st.integers(0, len(OFFSETS) - 1),
    })


def points(d):
    P = np.asarray(d["pts"], dtype=float).reshape(-1, 3)
    return np.asarray(OFFSETS[d["off"]]) + float(d["mag"]) * P


# ---- timestamps ----------------------------------------------------------------------------

def st_stamps(min_n, max_n):
    """strictly increasing: {"t0":..., "dts":[...]} with dts > 0"""
    return st.fixed_dictionaries({
        "t0": st.sampled_from([0.0, 1.0, 1.5e9 + 0.123456789, 1403636579.763555527, 1e-3]),
        "dts": st.lists(st.one_of(fl(1e-3, 10.0), st.sampled_from([0.005, 0.01, 0.05, 0.1, 1.0])),
                        min_size=min_n - 1 if min_n > 0 else 0, max_size=max(0, max_n - 1)),
    })


def stamps(d):
    ts = [float(d["t0"])]
    for dt in d["dts"]:
        nxt = ts[-1] + float(dt)
        if nxt <= ts[-1]:
            nxt = np.nextafter(ts[-1], np.inf)
        ts.append(float(nxt))
    return np.array(ts)


# ---- bulk (counter-based, a pure function of drawn values) -------------------------------

def bulk_rng(seed):
    return np.random.Generator(np.random.Philox(key=int(seed) % (2 ** 63)))


def bulk_trajectory(n, seed, mag=10.0, off=0, t0=0.0, dt=0.1, kind="walk"):
    """deterministic trajectory of n poses: positions (n,3), quats wxyz (n,4), stamps (n,)"""
    rng = bulk_rng(seed)
    if kind == "walk":
        steps = rng.standard_normal((n, 3)) * (mag / max(1.0, math.sqrt(n)))
        P = np.cumsum(steps, axis=0)
    else:
        P = rng.uniform(-mag, mag, size=(n, 3))
    P = P + np.asarray(OFFSETS[off])
    Q = rng.standard_normal((n, 4))
    Q /= np.linalg.norm(Q, axis=1)[:, None]
    T = t0 + dt * np.arange(n) + rng.uniform(0, 0.3 * dt, size=n)
    return P, Q, T
