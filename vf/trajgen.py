"""Trajectory descriptors (JSON) -> numbers -> evo objects.

descriptor = {
  "n": int,
  "pos": {"pts": [[x,y,z]]*n in [-1,1], "mag": float, "off": int}      (gen.points)
  "rots": [rotation descriptor]*n                                       (gen.rot_matrix)
  "mode": "pq" | "se3"              storage mode handed to evo
  "pre": [names of views read right after construction]
  "stamps": optional {"t0":, "dts": [..]}                              (gen.stamps)
}
An estimate may instead carry "rel": [rotation descriptor]*n : est_i = ref_i * rel_i.
"""
import numpy as np
from hypothesis import strategies as st

from vf import gen, refmodel as rm

VIEWS = ("positions_xyz", "orientations_quat_wxyz", "poses_se3")


def st_traj(n, stamps=False, exp_lo=-3, exp_hi=6, rot=None):
    rot = rot or gen.st_rotation
    d = {
        "n": st.just(n),
        "pos": gen.st_points(n, n, exp_lo, exp_hi),
        "rots": st.lists(rot, min_size=n, max_size=n),
        "mode": st.sampled_from(["pq", "se3"]),
        "pre": st.lists(st.sampled_from(VIEWS), max_size=2, unique=True),
    }
    if stamps:
        d["stamps"] = gen.st_stamps(n, n)
    return st.fixed_dictionaries(d)


def st_pair(min_n, max_n, stamps=False, exp_lo=-3, exp_hi=6):
    """ref + est of equal length; est orientation either free or ref*rel with special relative angles"""
    def mk(n):
        ref = st_traj(n, stamps, exp_lo, exp_hi)
        est_free = st_traj(n, False, exp_lo, exp_hi)
        est_rel = st.fixed_dictionaries({
            "n": st.just(n), "pos": gen.st_points(n, n, exp_lo, exp_hi),
            "rel": st.lists(gen.st_rot_axis, min_size=n, max_size=n),
            "mode": st.sampled_from(["pq", "se3"]),
            "pre": st.lists(st.sampled_from(VIEWS), max_size=2, unique=True)})
        return st.fixed_dictionaries({"ref": ref, "est": st.one_of(est_free, est_rel),
                                      "est_near_ref": st.sampled_from([None, None, 1e-3, 1e-1])})
    return st.integers(min_n, max_n).flatmap(mk)


class Real(object):
    """numbers of a trajectory: P (n,3); Q (n,4) wxyz or None; poses list of 4x4; T stamps or None"""

    def __init__(self, P, Rs, mode, T=None, Q=None):
        self.P = np.asarray(P, dtype=float)
        self.mode = mode
        self.T = None if T is None else np.asarray(T, dtype=float)
        if mode == "pq":
            self.Q = np.array([rm.R_to_quat(R) for R in Rs]) if Q is None else np.asarray(Q, dtype=float)
            # what the object means: poses from these quaternions
            self.poses = rm.poses_from(self.P, self.Q)
        else:
            self.Q = None
            self.poses = [rm.se3(R, p) for R, p in zip(Rs, self.P)]
        self.n = len(self.P)

    def Rs(self):
        return [T[:3, :3] for T in self.poses]

    def left(self, M):
        """M * pose_i (M a reference SE(3) matrix) as a new Real in the same mode"""
        poses = [M @ T for T in self.poses]
        return Real(np.array([T[:3, 3] for T in poses]), [T[:3, :3] for T in poses], self.mode, self.T)

    def build(self, pre=(), timed=None):
        from evo.core.trajectory import PosePath3D, PoseTrajectory3D
        timed = (self.T is not None) if timed is None else timed
        kw = {}
        if self.mode == "pq":
            kw["positions_xyz"] = self.P.copy()
            kw["orientations_quat_wxyz"] = self.Q.copy()
        else:
            kw["poses_se3"] = [T.copy() for T in self.poses]
        if timed:
            obj = PoseTrajectory3D(timestamps=self.T.copy(), **kw)
        else:
            obj = PosePath3D(**kw)
        for v in pre:
            getattr(obj, v)
        return obj


def realise(desc, ref=None, near=None):
    P = gen.points(desc["pos"])
    if "rel" in desc:
        Rs = [R0 @ gen.rot_matrix(r) for R0, r in zip(ref.Rs(), desc["rel"])]
    else:
        Rs = [gen.rot_matrix(r) for r in desc["rots"]]
    if near is not None and ref is not None:
        # estimate positions close to the reference's (small errors on big coordinates)
        P = ref.P + near * float(desc["pos"]["mag"]) * np.asarray(desc["pos"]["pts"], dtype=float)
    T = gen.stamps(desc["stamps"]) if desc.get("stamps") else None
    return Real(P, Rs, desc["mode"], T)


def realise_pair(case, with_stamps=False):
    ref = realise(case["ref"])
    est = realise(case["est"], ref, case.get("est_near_ref"))
    if with_stamps and ref.T is not None:
        est.T = ref.T.copy()
    return ref, est


def bulk_real(n, seed, mode, mag=10.0, off=0, t0=0.0, dt=0.1):
    P, Q, T = gen.bulk_trajectory(n, seed, mag, off, t0, dt)
    Rs = [rm.quat_to_R(q) for q in Q]
    return Real(P, Rs, mode, T, Q=Q if mode == "pq" else None)


def coord_scale(*reals):
    return max(float(np.abs(r.P).max()) for r in reals) + 1.0
