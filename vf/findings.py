"""known_findings.json matching.  The file is committed and never written at run time.

Entry: {"id", "property", "status": "open"|"fixed", "subcheck", "tags": {k: v, ...}, "what", ...}
An open entry matches a Mismatch of the same property iff the sub-check name is equal and every
key of ``tags`` is present in the mismatch's tags with an equal value.  ``fixed`` entries match
nothing.
"""
import json
import os

_HERE = os.path.dirname(os.path.dirname(os.path.abspath(__file__)))
_PATH = os.path.join(_HERE, "known_findings.json")
_CACHE = None


def load():
    global _CACHE
    if _CACHE is None:
        if os.path.exists(_PATH):
            with open(_PATH) as f:
                _CACHE = json.load(f)["findings"]
        else:
            _CACHE = []
    return _CACHE


def match(prop, subcheck, tags):
    for e in load():
        if e.get("status") != "open" or e.get("property") != prop:
            continue
        if e.get("subcheck") != subcheck:
            continue
        want = e.get("tags", {})
        if all(k in tags and tags[k] == v for k, v in want.items()):
            return e["id"]
    return None


def by_id(kid):
    for e in load():
        if e["id"] == kid:
            return e
    return None
