/* LD_PRELOAD shim for C19: turns every file-system call that touches a path under $VF_ROOT into a
 * numbered "step" that the harness can record, kill at, or gate.
 *
 *   VF_ROOT      absolute path prefix that is watched
 *   VF_LOG       (optional) file to which "N op path [bytes]" lines are appended (O_APPEND, one write per line)
 *   VF_KILL_AT   k[:m]  _exit(137) before step k; if step k is a write, first really write m bytes of it
 *   VF_GATE_OUT / VF_GATE_IN   FIFOs: before each step "N op path\n" is written to OUT and one line is read
 *                from IN: "go" continues, "kill" exits with 137
 *
 * Works at libc level, so it does not matter how the program writes (in place, temp file + rename, ...).
 */
#define _GNU_SOURCE
#include <dlfcn.h>
#include <errno.h>
#include <fcntl.h>
#include <limits.h>
#include <stdarg.h>
#include <stdio.h>
#include <stdlib.h>
#include <string.h>
#include <sys/stat.h>
#include <sys/types.h>
#include <unistd.h>

static const char *root = NULL;
static size_t root_len = 0;
static int log_fd = -1, gate_out = -1, gate_in = -1;
static long step_no = 0, kill_at = -1, kill_bytes = -1;
static int inited = 0, busy = 0;
#define MAXFD 4096
static unsigned char fd_watched[MAXFD];   /* 1: under root */
static unsigned char fd_readseen[MAXFD];  /* first read already reported */

static int (*real_open)(const char *, int, ...);
static int (*real_open64)(const char *, int, ...);
static int (*real_openat)(int, const char *, int, ...);
static int (*real_creat)(const char *, mode_t);
static ssize_t (*real_write)(int, const void *, size_t);
static ssize_t (*real_pwrite)(int, const void *, size_t, off_t);
static ssize_t (*real_read)(int, void *, size_t);
static int (*real_rename)(const char *, const char *);
static int (*real_renameat)(int, const char *, int, const char *);
static int (*real_renameat2)(int, const char *, int, const char *, unsigned int);
static int (*real_mkdir)(const char *, mode_t);
static int (*real_mkdirat)(int, const char *, mode_t);
static int (*real_unlink)(const char *);
static int (*real_unlinkat)(int, const char *, int);
static int (*real_truncate)(const char *, off_t);
static int (*real_ftruncate)(int, off_t);
static int (*real_fsync)(int);
static int (*real_close)(int);
static int (*real_stat)(const char *, struct stat *);
static int (*real_lstat)(const char *, struct stat *);
static int (*real_fstatat)(int, const char *, struct stat *, int);
static int (*real_access)(const char *, int);
static int (*real_faccessat)(int, const char *, int, int);
static int (*real_statx)(int, const char *, int, unsigned int, void *);
static int (*real_link)(const char *, const char *);

static void init(void) {
    if (inited) return;
    inited = 1;
    real_open = dlsym(RTLD_NEXT, "open");
    real_open64 = dlsym(RTLD_NEXT, "open64");
    real_openat = dlsym(RTLD_NEXT, "openat");
    real_creat = dlsym(RTLD_NEXT, "creat");
    real_write = dlsym(RTLD_NEXT, "write");
    real_pwrite = dlsym(RTLD_NEXT, "pwrite");
    real_read = dlsym(RTLD_NEXT, "read");
    real_rename = dlsym(RTLD_NEXT, "rename");
    real_renameat = dlsym(RTLD_NEXT, "renameat");
    real_renameat2 = dlsym(RTLD_NEXT, "renameat2");
    real_mkdir = dlsym(RTLD_NEXT, "mkdir");
    real_mkdirat = dlsym(RTLD_NEXT, "mkdirat");
    real_unlink = dlsym(RTLD_NEXT, "unlink");
    real_unlinkat = dlsym(RTLD_NEXT, "unlinkat");
    real_truncate = dlsym(RTLD_NEXT, "truncate");
    real_ftruncate = dlsym(RTLD_NEXT, "ftruncate");
    real_fsync = dlsym(RTLD_NEXT, "fsync");
    real_close = dlsym(RTLD_NEXT, "close");
    real_stat = dlsym(RTLD_NEXT, "stat");
    real_lstat = dlsym(RTLD_NEXT, "lstat");
    real_fstatat = dlsym(RTLD_NEXT, "fstatat");
    real_access = dlsym(RTLD_NEXT, "access");
    real_faccessat = dlsym(RTLD_NEXT, "faccessat");
    real_statx = dlsym(RTLD_NEXT, "statx");
    real_link = dlsym(RTLD_NEXT, "link");
    root = getenv("VF_ROOT");
    if (root) root_len = strlen(root);
    const char *s = getenv("VF_KILL_AT");
    if (s && *s) {
        kill_at = strtol(s, NULL, 10);
        const char *c = strchr(s, ':');
        if (c) kill_bytes = strtol(c + 1, NULL, 10);
    }
    s = getenv("VF_LOG");
    if (s && *s && real_open) log_fd = real_open(s, O_WRONLY | O_APPEND | O_CREAT, 0644);
    s = getenv("VF_GATE_OUT");
    if (s && *s && real_open) gate_out = real_open(s, O_WRONLY);
    s = getenv("VF_GATE_IN");
    if (s && *s && real_open) gate_in = real_open(s, O_RDONLY);
}

static int under_root(const char *path) {
    if (!root || !path) return 0;
    char buf[PATH_MAX];
    const char *p = path;
    if (path[0] != '/') {
        if (!getcwd(buf, sizeof buf)) return 0;
        size_t l = strlen(buf);
        if (l + 1 + strlen(path) >= sizeof buf) return 0;
        buf[l] = '/';
        strcpy(buf + l + 1, path);
        p = buf;
    }
    return strncmp(p, root, root_len) == 0 && (p[root_len] == 0 || p[root_len] == '/');
}

static int at_under_root(int dirfd, const char *path) {
    if (!path) return 0;
    if (path[0] == '/' || dirfd == AT_FDCWD) return under_root(path);
    if (dirfd >= 0 && dirfd < MAXFD && fd_watched[dirfd]) return 1;
    char link[64], buf[PATH_MAX];
    snprintf(link, sizeof link, "/proc/self/fd/%d", dirfd);
    ssize_t n = readlink(link, buf, sizeof buf - 1);
    if (n <= 0) return 0;
    buf[n] = 0;
    return under_root(buf);
}

/* returns bytes to write before dying (>=0) if this step is the kill step with a byte count, -1 otherwise */
static long step(const char *op, const char *path, long nbytes) {
    if (busy) return -1;
    busy = 1;
    step_no++;
    char line[PATH_MAX + 128];
    int n = snprintf(line, sizeof line, "%ld %s %s %ld\n", step_no, op, path ? path : "-", nbytes);
    if (log_fd >= 0) real_write(log_fd, line, n);
    long ret = -1;
    if (kill_at > 0 && step_no == kill_at) {
        if (kill_bytes >= 0 && nbytes >= 0) ret = kill_bytes < nbytes ? kill_bytes : nbytes;
        else _exit(137);
    }
    if (gate_out >= 0 && gate_in >= 0) {
        real_write(gate_out, line, n);
        char ans[16];
        int k = 0;
        while (k < 15) {
            ssize_t r = real_read(gate_in, ans + k, 1);
            if (r <= 0) _exit(138);
            if (ans[k] == '\n') break;
            k++;
        }
        ans[k] = 0;
        if (strncmp(ans, "kill", 4) == 0) _exit(137);
    }
    busy = 0;
    return ret;
}

static void note_fd(int fd, int watched) {
    if (fd >= 0 && fd < MAXFD) { fd_watched[fd] = watched; fd_readseen[fd] = 0; }
}

static const char *open_op(int flags) {
    if (flags & O_TRUNC) return "open_trunc";
    if (flags & O_CREAT) return "open_creat";
    if ((flags & O_ACCMODE) != O_RDONLY) return "open_w";
    return "open_r";
}

#define OPEN_BODY(REAL, ...)                                            \
    init();                                                             \
    mode_t mode = 0;                                                    \
    if (flags & (O_CREAT | O_TMPFILE)) { va_list ap; va_start(ap, flags); mode = va_arg(ap, mode_t); va_end(ap); }

int open(const char *path, int flags, ...) {
    OPEN_BODY(real_open)
    int w = under_root(path);
    if (w) step(open_op(flags), path, -1);
    int fd = real_open(path, flags, mode);
    if (fd >= 0) note_fd(fd, w);
    return fd;
}

int open64(const char *path, int flags, ...) {
    OPEN_BODY(real_open64)
    int w = under_root(path);
    if (w) step(open_op(flags), path, -1);
    int fd = (real_open64 ? real_open64 : real_open)(path, flags, mode);
    if (fd >= 0) note_fd(fd, w);
    return fd;
}

int openat(int dirfd, const char *path, int flags, ...) {
    OPEN_BODY(real_openat)
    int w = at_under_root(dirfd, path);
    if (w) step(open_op(flags), path, -1);
    int fd = real_openat(dirfd, path, flags, mode);
    if (fd >= 0) note_fd(fd, w);
    return fd;
}

int openat64(int dirfd, const char *path, int flags, ...) {
    OPEN_BODY(real_openat)
    int w = at_under_root(dirfd, path);
    if (w) step(open_op(flags), path, -1);
    int fd = real_openat(dirfd, path, flags | O_LARGEFILE, mode);
    if (fd >= 0) note_fd(fd, w);
    return fd;
}

int creat(const char *path, mode_t mode) {
    init();
    int w = under_root(path);
    if (w) step("open_trunc", path, -1);
    int fd = real_creat(path, mode);
    if (fd >= 0) note_fd(fd, w);
    return fd;
}

ssize_t write(int fd, const void *buf, size_t count) {
    init();
    if (!busy && fd >= 0 && fd < MAXFD && fd_watched[fd]) {
        long part = step("write", "fd", (long)count);
        if (part >= 0) {
            if (part > 0) real_write(fd, buf, (size_t)part);
            _exit(137);
        }
    }
    return real_write(fd, buf, count);
}

ssize_t pwrite(int fd, const void *buf, size_t count, off_t off) {
    init();
    if (!busy && fd >= 0 && fd < MAXFD && fd_watched[fd]) {
        long part = step("write", "fd", (long)count);
        if (part >= 0) {
            if (part > 0) real_pwrite(fd, buf, (size_t)part, off);
            _exit(137);
        }
    }
    return real_pwrite(fd, buf, count, off);
}

ssize_t read(int fd, void *buf, size_t count) {
    init();
    if (!busy && fd >= 0 && fd < MAXFD && fd_watched[fd] && !fd_readseen[fd]) {
        fd_readseen[fd] = 1;
        step("read", "fd", -1);
    }
    return real_read(fd, buf, count);
}

int close(int fd) {
    init();
    if (fd >= 0 && fd < MAXFD) {
        if (!busy && fd_watched[fd]) step("close", "fd", -1);
        fd_watched[fd] = 0;
    }
    return real_close(fd);
}

int rename(const char *a, const char *b) {
    init();
    if (under_root(a) || under_root(b)) step("rename", b, -1);
    return real_rename(a, b);
}

int renameat(int ad, const char *a, int bd, const char *b) {
    init();
    if (at_under_root(ad, a) || at_under_root(bd, b)) step("rename", b, -1);
    return real_renameat(ad, a, bd, b);
}

int renameat2(int ad, const char *a, int bd, const char *b, unsigned int fl) {
    init();
    if (at_under_root(ad, a) || at_under_root(bd, b)) step("rename", b, -1);
    return real_renameat2(ad, a, bd, b, fl);
}

int link(const char *a, const char *b) {
    init();
    if (under_root(a) || under_root(b)) step("link", b, -1);
    return real_link(a, b);
}

int mkdir(const char *path, mode_t mode) {
    init();
    if (under_root(path)) step("mkdir", path, -1);
    return real_mkdir(path, mode);
}

int mkdirat(int dirfd, const char *path, mode_t mode) {
    init();
    if (at_under_root(dirfd, path)) step("mkdir", path, -1);
    return real_mkdirat(dirfd, path, mode);
}

int unlink(const char *path) {
    init();
    if (under_root(path)) step("unlink", path, -1);
    return real_unlink(path);
}

int unlinkat(int dirfd, const char *path, int flags) {
    init();
    if (at_under_root(dirfd, path)) step("unlink", path, -1);
    return real_unlinkat(dirfd, path, flags);
}

int truncate(const char *path, off_t len) {
    init();
    if (under_root(path)) step("truncate", path, -1);
    return real_truncate(path, len);
}

int ftruncate(int fd, off_t len) {
    init();
    if (fd >= 0 && fd < MAXFD && fd_watched[fd]) step("truncate", "fd", -1);
    return real_ftruncate(fd, len);
}

int fsync(int fd) {
    init();
    if (fd >= 0 && fd < MAXFD && fd_watched[fd]) step("fsync", "fd", -1);
    return real_fsync(fd);
}

int stat(const char *path, struct stat *st) {
    init();
    if (under_root(path)) step("stat", path, -1);
    return real_stat(path, st);
}

int lstat(const char *path, struct stat *st) {
    init();
    if (under_root(path)) step("stat", path, -1);
    return real_lstat(path, st);
}

int fstatat(int dirfd, const char *path, struct stat *st, int flags) {
    init();
    if (path && path[0] && at_under_root(dirfd, path)) step("stat", path, -1);
    return real_fstatat(dirfd, path, st, flags);
}

int stat64(const char *path, struct stat64 *st) __attribute__((alias("stat")));
int lstat64(const char *path, struct stat64 *st) __attribute__((alias("lstat")));
int fstatat64(int dirfd, const char *path, struct stat64 *st, int flags) __attribute__((alias("fstatat")));

int statx(int dirfd, const char *path, int flags, unsigned int mask, struct statx *stx) {
    init();
    if (path && path[0] && at_under_root(dirfd, path)) step("stat", path, -1);
    return real_statx(dirfd, path, flags, mask, stx);
}

int access(const char *path, int mode) {
    init();
    if (under_root(path)) step("access", path, -1);
    return real_access(path, mode);
}

int faccessat(int dirfd, const char *path, int mode, int flags) {
    init();
    if (at_under_root(dirfd, path)) step("access", path, -1);
    return real_faccessat(dirfd, path, mode, flags);
}
