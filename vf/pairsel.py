"""Checkers for RPE pair selection and motion filtering (validity predicates that walk along the
implementation's output; decisions inside the ambiguity margin accept either outcome)."""
import math

import numpy as np

from vf import refmodel as rm


class Bad(Exception):
    def __init__(self, clause, msg):
        super().__init__(msg)
        self.clause = clause
        self.msg = msg


def _basic(pairs, N):
    out = []
    for p in pairs:
        if len(p) != 2:
            raise Bad("shape", "pair %r" % (p,))
        i, j = int(p[0]), int(p[1])
        if not (0 <= i < j < N):
            raise Bad("range", "pair (%d,%d) violates 0 <= i < j < %d" % (i, j, N))
        out.append((i, j))
    return out


def check_frames(pairs, N, delta, all_pairs):
    pairs = _basic(pairs, N)
    if all_pairs:
        exp = [(i, i + delta) for i in range(N) if i + delta < N]
        if sorted(pairs) != exp or len(set(pairs)) != len(pairs):
            raise Bad("frames_all", "all-pairs with delta %d frames: got %s, expected %s" % (delta, pairs, exp))
    else:
        exp = [(k, k + delta) for k in range(0, N, delta) if k + delta < N]
        if pairs != exp:
            raise Bad("frames_chain", "consecutive pairs with delta %d frames: got %s, expected chain %s" % (delta, pairs, exp))
    return len(exp)


def check_chain(pairs, w, delta, margin, what):
    """w[k] >= 0: cost of the step k -> k+1.  Returns number of ambiguous decisions met."""
    N = len(w) + 1
    pairs = _basic(pairs, N)
    amb = 0
    acc = [0.0]
    for k in range(len(w)):
        acc.append(math.fsum(w[:k + 1]))

    def S(i, j):
        return math.fsum(w[i:j])

    # first pose that definitely / possibly reaches delta from the beginning
    p0_def = next((j for j in range(1, N) if S(0, j) >= delta + margin), None)
    if not pairs:
        # acceptable iff some allowed start has an empty chain
        if p0_def is None:
            return 0
        # the latest admissible start is the first pose that DEFINITELY reaches delta (an ambiguous earlier
        # pose may legitimately be judged as not reaching it)
        for s in range(0, p0_def + 1):
            if not any(S(s, j) >= delta + margin for j in range(s + 1, N)):
                return 0
        raise Bad("chain_empty", "%s: no pairs returned although every admissible start reaches delta %r again" % (what, delta))
    for a, b in zip(pairs, pairs[1:]):
        if b[0] != a[1]:
            raise Bad("chain_link", "%s: pairs %s and %s are not chained" % (what, a, b))
    s = pairs[0][0]
    if p0_def is not None and s > p0_def:
        raise Bad("chain_start", "%s: chain starts at %d, later than the first pose %d that reaches delta from the beginning" % (what, s, p0_def))
    for i, j in pairs:
        tot = S(i, j)
        if tot < delta - margin:
            raise Bad("chain_short", "%s: pair (%d,%d) spans %r < delta %r" % (what, i, j, tot, delta))
        if abs(tot - delta) <= margin:
            amb += 1
        if j - 1 > i:
            prev = S(i, j - 1)
            if prev >= delta + margin:
                raise Bad("chain_not_first", "%s: pair (%d,%d): pose %d already reached delta (%r >= %r)" % (what, i, j, j - 1, prev, delta))
            if abs(prev - delta) <= margin:
                amb += 1
    last = pairs[-1][1]
    for j in range(last + 1, N):
        if S(last, j) >= delta + margin:
            raise Bad("chain_not_maximal", "%s: chain ends at %d although pose %d reaches delta from there" % (what, last, j))
    return amb


def check_path_all(pairs, steps, delta, tol, margin):
    N = len(steps) + 1
    pairs = _basic(pairs, N)
    amb = 0
    seen = {}
    for i, j in pairs:
        if i in seen:
            raise Bad("path_all_dup", "start pose %d reported twice" % i)
        seen[i] = j
    for i in range(N - 1):
        d = [abs(math.fsum(steps[i:j]) - delta) for j in range(i + 1, N)]
        best = min(d)
        if i in seen:
            dj = d[seen[i] - i - 1]
            if dj > tol + margin:
                raise Bad("path_all_tol", "pair (%d,%d): |path - delta| = %r > tolerance %r" % (i, seen[i], dj, tol))
            if dj > best + margin:
                raise Bad("path_all_closest", "pair (%d,%d): pose %d is closer to delta (%r < %r)" % (i, seen[i], i + 1 + d.index(best), best, dj))
            if abs(dj - tol) <= margin and margin > 0:
                amb += 1
        else:
            if best < tol - margin or (margin == 0 and best <= tol):
                raise Bad("path_all_missing", "start pose %d has pose %d within tolerance (|path-delta| = %r <= %r) but is not reported" % (
                    i, i + 1 + d.index(best), best, tol))
            if abs(best - tol) <= margin and margin > 0:
                amb += 1
    return amb


def check_angle_all(pairs, Rs, delta, tol, margin):
    N = len(Rs)
    pairs = _basic(pairs, N)
    if len(set(pairs)) != len(pairs):
        raise Bad("angle_all_dup", "duplicate pairs")
    got = set(pairs)
    amb = 0
    lo, hi = delta - tol, delta + tol
    for i in range(N):
        for j in range(i + 1, N):
            a = rm.rot_angle_between(Rs[i], Rs[j])
            inside = (a >= lo + margin) and (a <= hi - margin)
            outside = (a < lo - margin) or (a > hi + margin)
            if inside and (i, j) not in got:
                raise Bad("angle_all_missing", "pair (%d,%d) with relative angle %r in [%r, %r] not reported" % (i, j, a, lo, hi))
            if outside and (i, j) in got:
                raise Bad("angle_all_extra", "pair (%d,%d) with relative angle %r outside [%r, %r] reported" % (i, j, a, lo, hi))
            if not inside and not outside:
                amb += 1
    return amb


def consecutive_angles(Rs):
    return [rm.rot_angle_between(Rs[k], Rs[k + 1]) for k in range(len(Rs) - 1)]


# ---- motion filter (C11) ----------------------------------------------------------------------

def check_motion_filter(ids, P, Rs, dist_thr, ang_thr, margin_d, margin_a):
    """pose 0 kept; a later pose is kept iff path length since the last kept pose >= dist_thr or direct rotation
    angle to the last kept pose >= ang_thr"""
    N = len(P)
    ids = [int(v) for v in ids]
    if not ids or ids[0] != 0:
        raise Bad("mf_first", "first pose not kept: %s" % ids[:5])
    if any(b <= a for a, b in zip(ids, ids[1:])) or ids[-1] >= N:
        raise Bad("mf_order", "kept ids not strictly increasing / out of range: %s" % ids)
    steps = rm.step_lengths(P)
    kept = set(ids)
    last = 0
    amb = 0
    for i in range(1, N):
        d = math.fsum(steps[last:i])
        a = rm.rot_angle_between(Rs[last], Rs[i])
        must = (d >= dist_thr + margin_d) or (a >= ang_thr + margin_a) or (margin_d == 0 and d >= dist_thr)
        may = (d >= dist_thr - margin_d) or (a >= ang_thr - margin_a)
        if i in kept:
            if not may:
                raise Bad("mf_extra", "pose %d kept although path %r < %r and angle %r < %r since kept pose %d" % (i, d, dist_thr, a, ang_thr, last))
            if not must:
                amb += 1
            last = i
        else:
            if must:
                raise Bad("mf_missing", "pose %d dropped although path %r >= %r or angle %r >= %r since kept pose %d" % (i, d, dist_thr, a, ang_thr, last))
            if may:
                amb += 1
    return amb


def motion_filter_reference(P, Rs, dist_thr, ang_thr, margin_d, margin_a):
    """the kept ids by the definition; second value True if some decision was inside the ambiguity margin"""
    steps = rm.step_lengths(P)
    ids = [0]
    last = 0
    amb = False
    for i in range(1, len(P)):
        d = math.fsum(steps[last:i])
        a = rm.rot_angle_between(Rs[last], Rs[i])
        if abs(d - dist_thr) <= margin_d or abs(a - ang_thr) <= margin_a:
            amb = True
        if d >= dist_thr or a >= ang_thr:
            ids.append(i)
            last = i
    return ids, amb
